(* The backtracking matcher of Regex.v is sound and complete w.r.t. the declarative semantics M,
   for every regex (no side condition: the "every iteration consumes a character" rule is part of
   both), and the repeat loop never runs out of fuel. *)
From Coq Require Import ZArith List Bool Lia.
From DRF Require Import Base.Regex.
Import ListNotations.
Local Open Scope Z_scope.

Section Sound.
  Variable ci : bool.
  Variable n0 : nat.

  Notation go := (go ci n0).
  Notation M := (M ci n0).

  Definition Sound (r : re) : Prop :=
    forall (k : cont) s c c'', go r k s c = Some c'' ->
      exists s1 s2 c', s = s1 ++ s2 /\ M r s1 s2 c c' /\ k s2 c' = Some c''.

  Definition Complete (r : re) : Prop :=
    forall (k : cont) s1 s2 c c', M r s1 s2 c c' -> k s2 c' <> None -> go r k (s1 ++ s2) c <> None.

  Lemma below_under mx cnt : below mx cnt = true -> under mx (S cnt).
  Proof. destruct mx; cbn; [intro H; apply Nat.ltb_lt in H; lia | trivial]. Qed.

  Lemma under_below mx cnt m : under mx (cnt + S m) -> below mx cnt = true.
  Proof. destruct mx; cbn; [intro H; apply Nat.ltb_lt; lia | trivial]. Qed.

  (* ---- the repeat loop, given soundness / completeness of the body *)
  Section Loop.
    Variables (r' : re) (g : bool) (mn : nat) (mx : option nat) (k : cont).
    Hypothesis IHs : Sound r'.
    Hypothesis IHc : Complete r'.

    Lemma loop_sound : forall fuel cnt s c c'',
      under mx cnt ->
      rep_loop (go r') g mn mx k fuel cnt s c = Some c'' ->
      exists m s1 s2 c', s = s1 ++ s2 /\ Iter (M r') m s1 s2 c c' /\
        (mn <= cnt + m)%nat /\ under mx (cnt + m) /\ k s2 c' = Some c''.
    Proof.
      induction fuel as [|fuel IH]; intros cnt s c c'' Hu H; [discriminate|].
      assert (Hstop : (if Nat.leb mn cnt then k s c else None) = Some c'' ->
                      exists m s1 s2 c', s = s1 ++ s2 /\ Iter (M r') m s1 s2 c c' /\
                        (mn <= cnt + m)%nat /\ under mx (cnt + m) /\ k s2 c' = Some c'').
      { destruct (Nat.leb mn cnt) eqn:E; [|discriminate]. intro Hk. apply Nat.leb_le in E.
        exists O, [], s, c. rewrite Nat.add_0_r. cbn. auto. }
      assert (Hmore : (if below mx cnt
                       then go r' (fun s' c' => if Nat.ltb (length s') (length s)
                                                then rep_loop (go r') g mn mx k fuel (S cnt) s' c' else None) s c
                       else None) = Some c'' ->
                      exists m s1 s2 c', s = s1 ++ s2 /\ Iter (M r') m s1 s2 c c' /\
                        (mn <= cnt + m)%nat /\ under mx (cnt + m) /\ k s2 c' = Some c'').
      { destruct (below mx cnt) eqn:Eb; [|discriminate]. intro Hg.
        apply IHs in Hg as (sa & rest & cm & -> & Ma & Hk).
        destruct (Nat.ltb (length rest) (length (sa ++ rest))) eqn:El; [|discriminate].
        apply Nat.ltb_lt in El. rewrite app_length in El.
        apply IH in Hk as (m & sb & s2 & c' & -> & Hit & Hmn & Hmx & Hk); [|apply below_under; exact Eb].
        exists (S m), (sa ++ sb), s2, c'. rewrite <- app_assoc. split; [reflexivity|].
        split; [|rewrite Nat.add_succ_r; auto].
        cbn. exists sa, sb, cm. repeat split; auto. intros ->. cbn in El. lia. }
      cbn [rep_loop] in H. destruct g.
      - match type of H with match ?X with _ => _ end = _ => destruct X eqn:E end.
        + inversion H; subst. apply Hmore. reflexivity.
        + apply Hstop. exact H.
      - match type of H with match ?X with _ => _ end = _ => destruct X eqn:E end.
        + inversion H; subst. apply Hstop. reflexivity.
        + apply Hmore. exact H.
    Qed.

    Lemma loop_complete : forall m fuel cnt s1 s2 c c',
      (length (s1 ++ s2) < fuel)%nat ->
      Iter (M r') m s1 s2 c c' -> (mn <= cnt + m)%nat -> under mx (cnt + m) -> k s2 c' <> None ->
      rep_loop (go r') g mn mx k fuel cnt (s1 ++ s2) c <> None.
    Proof.
      induction m as [|m IH]; intros fuel cnt s1 s2 c c' Hf Hit Hmn Hmx Hk;
        (destruct fuel as [|fuel]; [lia|]).
      - cbn in Hit. destruct Hit as [-> ->]. cbn [app] in *. rewrite Nat.add_0_r in Hmn.
        apply Nat.leb_le in Hmn. cbn [rep_loop]. rewrite Hmn. destruct g.
        + match goal with |- match ?X with _ => _ end <> _ => destruct X end; [discriminate|exact Hk].
        + destruct (k s2 c); [discriminate|congruence].
      - cbn in Hit. destruct Hit as (sa & sb & cm & -> & Hne & Ma & Hit).
        pose proof (under_below _ _ _ Hmx) as Eb.
        assert (Hmore : go r' (fun s' c'0 => if Nat.ltb (length s') (length ((sa ++ sb) ++ s2))
                                  then rep_loop (go r') g mn mx k fuel (S cnt) s' c'0 else None)
                           ((sa ++ sb) ++ s2) c <> None).
        { rewrite <- app_assoc. apply IHc with (c' := cm); [exact Ma|].
          assert (El : Nat.ltb (length (sb ++ s2)) (length (sa ++ sb ++ s2)) = true).
          { apply Nat.ltb_lt. rewrite (app_length sa). destruct sa; [congruence|cbn; lia]. }
          rewrite El. apply IH with (c' := c'); auto.
          - rewrite <- app_assoc, (app_length sa) in Hf. destruct sa; [congruence|cbn in Hf; lia].
          - lia.
          - rewrite Nat.add_succ_r in Hmx. exact Hmx. }
        cbn [rep_loop]. rewrite Eb. destruct g.
        + match goal with |- match ?X with _ => _ end <> _ => destruct X eqn:E end; [discriminate|].
          exfalso. apply Hmore. reflexivity.
        + match goal with |- match ?X with _ => _ end <> _ => destruct X eqn:E end; [discriminate|].
          exact Hmore.
    Qed.
  End Loop.

  Theorem sound_complete : forall r, Sound r /\ Complete r.
  Proof.
    induction r as [ | a | | items | a [IHas IHac] b [IHbs IHbc] | a [IHas IHac] b [IHbs IHbc]
                   | g mn mx r' [IHs IHc] | nm r' [IHs IHc] | r' [IHs IHc] | | ]; split.
    - (* Eps *) intros k s c c'' H. exists [], s, c. cbn in *. auto.
    - intros k s1 s2 c c' [-> ->] Hk. exact Hk.
    - (* Chr *) intros k s c c'' H. cbn in H. destruct s as [|x s]; [discriminate|].
      destruct (chr_eq ci a x) eqn:E; [|discriminate].
      exists [x], s, c. cbn. split; [reflexivity|]. split; [exists x; auto|exact H].
    - intros k s1 s2 c c' (x & -> & E & ->) Hk. cbn. rewrite E. exact Hk.
    - (* Any *) intros k s c c'' H. cbn in H. destruct s as [|x s]; [discriminate|].
      destruct (x =? 10) eqn:E; [discriminate|]. apply Z.eqb_neq in E.
      exists [x], s, c. cbn. split; [reflexivity|]. split; [exists x; auto|exact H].
    - intros k s1 s2 c c' (x & -> & E & ->) Hk. cbn. apply Z.eqb_neq in E. rewrite E. exact Hk.
    - (* Cls *) intros k s c c'' H. cbn in H. destruct s as [|x s]; [discriminate|].
      destruct (in_cls items x) eqn:E; [|discriminate].
      exists [x], s, c. cbn. split; [reflexivity|]. split; [exists x; auto|exact H].
    - intros k s1 s2 c c' (x & -> & E & ->) Hk. cbn. rewrite E. exact Hk.
    - (* Seq *) intros k s c c'' H. cbn in H.
      apply IHas in H as (sa & rest & cm & -> & Ma & H).
      apply IHbs in H as (sb & s2 & c' & -> & Mb & H).
      exists (sa ++ sb), s2, c'. rewrite <- app_assoc. split; [reflexivity|]. split; [|exact H].
      cbn. exists sa, sb, cm. auto.
    - intros k s1 s2 c c' (sa & sb & cm & -> & Ma & Mb) Hk. cbn. rewrite <- app_assoc.
      apply IHac with (c' := cm); [exact Ma|]. apply IHbc with (c' := c'); assumption.
    - (* Alt *) intros k s c c'' H. cbn in H. destruct (go a k s c) eqn:E.
      + inversion H; subst. apply IHas in E as (s1 & s2 & c' & -> & Ma & Hk).
        exists s1, s2, c'. cbn. auto.
      + apply IHbs in H as (s1 & s2 & c' & -> & Mb & Hk). exists s1, s2, c'. cbn. auto.
    - intros k s1 s2 c c' [Ma | Mb] Hk; cbn.
      + pose proof (IHac k s1 s2 c c' Ma Hk) as H. destruct (go a k (s1 ++ s2) c); [discriminate|congruence].
      + destruct (go a k (s1 ++ s2) c); [discriminate|]. apply IHbc with (c' := c'); assumption.
    - (* Rep *) intros k s c c'' H.
      change (rep_loop (go r') g mn mx k (S (length s)) 0 s c = Some c'') in H.
      apply (loop_sound r' g mn mx k IHs) in H as (m & s1 & s2 & c' & -> & Hit & Hmn & Hmx & Hk).
      + exists s1, s2, c'. split; [reflexivity|]. split; [|exact Hk]. cbn. exists m. auto.
      + destruct mx; cbn; [lia|trivial].
    - intros k s1 s2 c c' (m & Hmn & Hmx & Hit) Hk.
      change (rep_loop (go r') g mn mx k (S (length (s1 ++ s2))) 0 (s1 ++ s2) c <> None).
      apply (loop_complete r' g mn mx k IHc m) with (c' := c'); auto.
    - (* Group *) intros k s c c'' H. cbn in H.
      apply IHs in H as (s1 & s2 & cm & -> & Mr & Hk).
      exists s1, s2, ((nm, s1) :: cm). split; [reflexivity|]. split; [cbn; exists cm; auto|].
      rewrite app_length, Nat.add_sub, firstn_app, firstn_all, Nat.sub_diag in Hk.
      cbn in Hk. rewrite app_nil_r in Hk. exact Hk.
    - intros k s1 s2 c c' (cm & Mr & ->) Hk. cbn.
      apply IHc with (c' := cm); [exact Mr|].
      rewrite app_length, Nat.add_sub, firstn_app, firstn_all, Nat.sub_diag. cbn. rewrite app_nil_r. exact Hk.
    - (* NotAhead *) intros k s c c'' H. cbn in H. destruct (go r' accept s c) eqn:E; [discriminate|].
      exists [], s, c. split; [reflexivity|]. split; [|exact H]. cbn. split; [reflexivity|]. split; [reflexivity|].
      intros (sa & sb & cx & -> & Mr). apply (IHc accept sa sb c cx Mr); [discriminate|exact E].
    - intros k s1 s2 c c' (-> & -> & Hno) Hk. cbn. destruct (go r' accept s2 c) eqn:E; [|exact Hk].
      exfalso. apply IHs in E as (sa & sb & cx & -> & Mr & _). apply Hno. exists sa, sb, cx. auto.
    - (* Bol *) intros k s c c'' H. cbn in H. destruct (Nat.eqb (length s) n0) eqn:E; [|discriminate].
      apply Nat.eqb_eq in E. exists [], s, c. cbn. auto.
    - intros k s1 s2 c c' (-> & -> & E) Hk. cbn. apply Nat.eqb_eq in E. rewrite E. exact Hk.
    - (* Eol *) intros k s c c'' H. cbn in H. destruct (at_end s) eqn:E; [|discriminate].
      exists [], s, c. cbn. repeat split; auto.
      destruct s as [|x [|y s]]; cbn in E; try discriminate; auto.
      apply Z.eqb_eq in E. subst. auto.
    - intros k s1 s2 c c' (-> & -> & [-> | ->]) Hk; cbn; exact Hk.
  Qed.

  Corollary go_sound r : Sound r.
  Proof. apply sound_complete. Qed.
  Corollary go_complete r : Complete r.
  Proof. apply sound_complete. Qed.
End Sound.

(* ---- pattern.match(s) *)
Theorem rmatch_sound ci r s c :
  rmatch ci r s = Some c -> exists s1 s2, s = s1 ++ s2 /\ M ci (length s) r s1 s2 [] c.
Proof.
  unfold rmatch. intro H. apply go_sound in H as (s1 & s2 & c' & -> & Hm & Hk).
  unfold accept in Hk. inversion Hk; subst. exists s1, s2. auto.
Qed.

Theorem rmatch_complete ci r s1 s2 c :
  M ci (length (s1 ++ s2)) r s1 s2 [] c -> rmatch ci r (s1 ++ s2) <> None.
Proof.
  unfold rmatch. intro H. apply (go_complete ci (length (s1 ++ s2)) r accept s1 s2 [] c H). discriminate.
Qed.

Corollary matches_iff ci r s :
  matches ci r s = true <-> exists s1 s2 c, s = s1 ++ s2 /\ M ci (length s) r s1 s2 [] c.
Proof.
  unfold matches. split.
  - destruct (rmatch ci r s) eqn:E; [|discriminate]. intros _.
    apply rmatch_sound in E as (s1 & s2 & -> & H). exists s1, s2, c. auto.
  - intros (s1 & s2 & c & -> & H). pose proof (rmatch_complete ci r s1 s2 c H) as Hn.
    destruct (rmatch ci r (s1 ++ s2)); congruence.
Qed.

(* Fuel: go_complete has no fuel hypothesis -- whenever the declarative semantics has a match the
   matcher (which gives every repeat the fuel S (length s)) answers Some; so running out of fuel
   is never the reason for a None. *)

(* ---- generic consequences used by the grammar lemmas *)
Lemma Iter_cls ci n0 items : forall n s1 s2 c c',
  Iter (M ci n0 (Cls items)) n s1 s2 c c' ->
  c' = c /\ length s1 = n /\ forallb (in_cls items) s1 = true.
Proof.
  induction n as [|n IH]; intros s1 s2 c c' H; cbn in H.
  - destruct H as [-> ->]. auto.
  - destruct H as (sa & sb & cm & -> & _ & (x & -> & Hx & ->) & Hit).
    apply IH in Hit as (-> & <- & Hall). cbn. rewrite Hx, Hall. auto.
Qed.

Lemma Iter_any ci n0 : forall n s1 s2 c c',
  Iter (M ci n0 Any) n s1 s2 c c' ->
  c' = c /\ length s1 = n /\ forallb (fun x => negb (x =? 10)) s1 = true.
Proof.
  induction n as [|n IH]; intros s1 s2 c c' H; cbn in H.
  - destruct H as [-> ->]. auto.
  - destruct H as (sa & sb & cm & -> & _ & (x & -> & Hx & ->) & Hit).
    apply IH in Hit as (-> & <- & Hall). cbn. apply Z.eqb_neq in Hx. rewrite Hx, Hall. auto.
Qed.

Lemma Iter_cls_intro ci n0 items : forall s1 s2 c,
  forallb (in_cls items) s1 = true -> Iter (M ci n0 (Cls items)) (length s1) s1 s2 c c.
Proof.
  induction s1 as [|x s1 IH]; intros s2 c H; cbn in *.
  - auto.
  - apply andb_true_iff in H as [Hx Hall]. exists [x], s1, c. repeat split; try discriminate.
    + exists x. auto.
    + apply IH. exact Hall.
Qed.

Lemma Iter_any_intro ci n0 : forall s1 s2 c,
  forallb (fun x => negb (x =? 10)) s1 = true -> Iter (M ci n0 Any) (length s1) s1 s2 c c.
Proof.
  induction s1 as [|x s1 IH]; intros s2 c H; cbn in *.
  - auto.
  - apply andb_true_iff in H as [Hx Hall]. exists [x], s1, c. repeat split; try discriminate.
    + exists x. repeat split. apply negb_true_iff in Hx. apply Z.eqb_neq. exact Hx.
    + apply IH. exact Hall.
Qed.
