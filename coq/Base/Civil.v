(* Proleptic Gregorian calendar: model of gmtime() as used by digital_rf_get_time_parts
   (days-from-civil algorithm), and the proof that it is a bijection between Unix seconds
   t >= 0 and (year, month, day, hour, minute, second).  The model is compared with the
   C library's gmtime and Python's datetime by the correspondence checks. *)
From Coq Require Import ZArith Lia Bool List Znumtheory.
Import ListNotations.
Local Open Scope Z_scope.

Definition yoe_of_doe (doe : Z) : Z := (doe - doe / 1460 + doe / 36524 - doe / 146096) / 365.

(* (year-of-era, month, day) of a day-of-era in [0, 146097) *)
Definition ymd_of_doe (doe : Z) : Z * Z * Z :=
  let yoe := yoe_of_doe doe in
  let doy := doe - (365 * yoe + yoe / 4 - yoe / 100) in
  let mp := (5 * doy + 2) / 153 in
  let d := doy - (153 * mp + 2) / 5 + 1 in
  let m := if mp <? 10 then mp + 3 else mp - 9 in
  (yoe, m, d).

Definition civil_from_days (z : Z) : Z * Z * Z :=
  let z := z + 719468 in
  let era := z / 146097 in
  let doe := z mod 146097 in
  let '(yoe, m, d) := ymd_of_doe doe in
  let y := yoe + era * 400 in
  ((if m <=? 2 then y + 1 else y), m, d).

Definition doe_of_ymd (yoe m d : Z) : Z :=
  let doy := (153 * (if 2 <? m then m - 3 else m + 9) + 2) / 5 + d - 1 in
  yoe * 365 + yoe / 4 - yoe / 100 + doy.

Definition days_from_civil (y m d : Z) : Z :=
  let y := if m <=? 2 then y - 1 else y in
  let era := y / 400 in
  let yoe := y mod 400 in
  era * 146097 + doe_of_ymd yoe m d - 719468.

(* gmtime: (status, year, month, day, hour, minute, second) *)
Definition time_parts (t : Z) : Z * Z * Z * Z * Z * Z :=
  let days := t / 86400 in
  let r := t mod 86400 in
  let '(y, m, d) := civil_from_days days in
  (y, m, d, r / 3600, (r mod 3600) / 60, r mod 60).

Definition unix_of_parts (p : Z * Z * Z * Z * Z * Z) : Z :=
  let '(y, m, d, hh, mm, ss) := p in
  days_from_civil y m d * 86400 + hh * 3600 + mm * 60 + ss.

(* ---- finite sweep over one 400-year era, by vm_compute *)

Definition doe_ok (doe : Z) : bool :=
  let '(yoe, m, d) := ymd_of_doe doe in
  (0 <=? yoe) && (yoe <=? 399) && (1 <=? m) && (m <=? 12) && (1 <=? d) && (d <=? 31)
  && (doe_of_ymd yoe m d =? doe)
  && ((doe <? 135080) || (370 <=? yoe + (if m <=? 2 then 1 else 0))).

Definition sweep (f : Z -> bool) (n : positive) : Z * bool :=
  Pos.iter (fun zb => (fst zb + 1, snd zb && f (fst zb))) (0, true) n.

Lemma sweep_sound f n : snd (sweep f n) = true -> forall i, 0 <= i < Zpos n -> f i = true.
Proof.
  unfold sweep.
  set (step := fun zb : Z * bool => (fst zb + 1, snd zb && f (fst zb))).
  assert (H : forall p, fst (Pos.iter step (0, true) p) = Zpos p /\
     (snd (Pos.iter step (0, true) p) = true -> forall i, 0 <= i < Zpos p -> f i = true)).
  { intro p. apply Pos.iter_ind with (P := fun p (a : Z * bool) => fst a = Zpos p /\
       (snd a = true -> forall i, 0 <= i < Zpos p -> f i = true)).
    - cbn. split; [reflexivity|]. intros Hf i Hi. assert (i = 0) by lia. subst. exact Hf.
    - intros q [z b] [Hz Hb]. cbn [fst snd] in *. unfold step; cbn [fst snd]. split; [lia|].
      intros Hand i Hi. apply andb_true_iff in Hand as [Hb1 Hfz].
      destruct (Z.eq_dec i z) as [->|Hne]; [exact Hfz|]. apply Hb; [exact Hb1|lia]. }
  intros Hs i Hi. exact (proj2 (H n) Hs i Hi).
Qed.

Lemma era_sweep : snd (sweep doe_ok 146097) = true.
Proof. vm_cast_no_check (eq_refl true). Qed.

Lemma doe_ok_all doe : 0 <= doe < 146097 -> doe_ok doe = true.
Proof. apply (sweep_sound doe_ok 146097 era_sweep). Qed.

Lemma days_roundtrip z : 0 <= z + 719468 ->
  let '(y, m, d) := civil_from_days z in days_from_civil y m d = z.
Proof.
  intros Hz. unfold civil_from_days.
  pose proof (Z.mod_pos_bound (z + 719468) 146097 ltac:(lia)) as Hdoe.
  pose proof (Z.div_mod (z + 719468) 146097 ltac:(lia)) as Hdm.
  set (era := (z + 719468) / 146097) in *. set (doe := (z + 719468) mod 146097) in *.
  pose proof (doe_ok_all doe Hdoe) as Hok. unfold doe_ok in Hok.
  destruct (ymd_of_doe doe) as [[yoe m] d].
  repeat (apply andb_true_iff in Hok as [Hok ?]).
  unfold days_from_civil.
  assert (Hy : (if m <=? 2 then (if m <=? 2 then yoe + era * 400 + 1 else yoe + era * 400) - 1
                else (if m <=? 2 then yoe + era * 400 + 1 else yoe + era * 400)) = yoe + era * 400).
  { destruct (m <=? 2); lia. }
  rewrite Hy.
  assert (He : (yoe + era * 400) / 400 = era).
  { rewrite Z.div_add by lia. rewrite Z.div_small by lia. lia. }
  assert (Hm : (yoe + era * 400) mod 400 = yoe).
  { rewrite Z.mod_add by lia. apply Z.mod_small. lia. }
  rewrite He, Hm. lia.
Qed.

Theorem civil_roundtrip t : 0 <= t -> unix_of_parts (time_parts t) = t.
Proof.
  intros Ht. unfold time_parts, unix_of_parts.
  assert (Hd : 0 <= t / 86400) by (apply Z.div_pos; lia).
  pose proof (days_roundtrip (t / 86400) ltac:(lia)) as Hr.
  destruct (civil_from_days (t / 86400)) as [[y m] d].
  rewrite Hr.
  pose proof (Z.div_mod t 86400 ltac:(lia)).
  pose proof (Z.mod_pos_bound t 86400 ltac:(lia)).
  set (r := t mod 86400) in *.
  pose proof (Z.div_mod r 3600 ltac:(lia)).
  pose proof (Z.div_mod (r mod 3600) 60 ltac:(lia)).
  assert (r mod 60 = (r mod 3600) mod 60).
  { apply Zmod_div_mod; try lia. exists 60. lia. }
  lia.
Qed.

Corollary time_parts_injective t t' : 0 <= t -> 0 <= t' -> time_parts t = time_parts t' -> t = t'.
Proof.
  intros H H' E. rewrite <- (civil_roundtrip t H), <- (civil_roundtrip t' H'), E. reflexivity.
Qed.

Lemma time_parts_ranges t : 0 <= t ->
  let '(y, m, d, hh, mm, ss) := time_parts t in
  1 <= m <= 12 /\ 1 <= d <= 31 /\ 0 <= hh <= 23 /\ 0 <= mm <= 59 /\ 0 <= ss <= 59 /\ 1970 <= y.
Proof.
  intros Ht. unfold time_parts, civil_from_days.
  assert (Hd : 0 <= t / 86400) by (apply Z.div_pos; lia).
  pose proof (Z.mod_pos_bound (t / 86400 + 719468) 146097 ltac:(lia)) as Hdoe.
  pose proof (Z.div_mod (t / 86400 + 719468) 146097 ltac:(lia)) as Hdm.
  set (era := (t / 86400 + 719468) / 146097) in *. set (doe := (t / 86400 + 719468) mod 146097) in *.
  pose proof (doe_ok_all doe Hdoe) as Hok. unfold doe_ok in Hok.
  destruct (ymd_of_doe doe) as [[yoe m] d] eqn:Eymd.
  repeat (apply andb_true_iff in Hok as [Hok ?]).
  pose proof (Z.mod_pos_bound t 86400 ltac:(lia)).
  set (r := t mod 86400) in *.
  assert (0 <= r / 3600 <= 23).
  { split; [apply Z.div_pos; lia|]. apply Z.lt_succ_r. apply Z.div_lt_upper_bound; lia. }
  pose proof (Z.mod_pos_bound r 3600 ltac:(lia)).
  assert (0 <= (r mod 3600) / 60 <= 59).
  { split; [apply Z.div_pos; lia|]. apply Z.lt_succ_r. apply Z.div_lt_upper_bound; lia. }
  pose proof (Z.mod_pos_bound r 60 ltac:(lia)).
  repeat split; try lia.
  (* year >= 1970: era >= 4 and, in era 4, doe >= 11017 + ... ; use the day count directly *)
  assert (He : 4 <= era).
  { subst era. apply Z.div_le_lower_bound; lia. }
  destruct (Z.eq_dec era 4) as [E4|NE4].
  - (* era 4 = years 1600..1999 (march-based); day 719468 is doe 135080 *)
    assert (Hdoe2 : 135080 <= doe) by lia.
    match goal with H : (_ || _) = true |- _ => apply orb_true_iff in H as [Hlt|Hge] end.
    + apply Z.ltb_lt in Hlt. lia.
    + apply Z.leb_le in Hge. destruct (m <=? 2); lia.
  - destruct (m <=? 2); lia.
Qed.
