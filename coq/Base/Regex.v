(* Regular expressions as CPython's `re` parses the path grammars of list_drf.py (translator T2,
   translate/re2gallina.py), with an executable backtracking matcher that follows Python's
   search order (leftmost alternative first, greedy / lazy repeats, negative look-ahead, named
   groups capturing the text of their last participation) and returns the captures.

   Characters are code points (Z); a subject string is a `list Z` (Base/Dec.v `codes`).

   The matcher is written in continuation-passing style.  A repeat is the only construct that
   is not structurally recursive; it runs on a fuel of `S (length s)` and demands that every
   iteration consumes at least one character, so the fuel can never run out (lemma
   `rep_loop_fuel` in RegexSound.v: any fuel above `length s` gives the same answer).  The
   translator refuses a repeat whose body could match the empty string (`wf`), so this demand
   never changes the outcome w.r.t. Python for the regenerated grammars.

   Declarative semantics `M r s1 s2 c c'` : r matches s1 when followed by s2, turning the capture
   state c into c'.  RegexSound.v proves the matcher sound and complete w.r.t. M. *)
From Coq Require Import ZArith List Bool Lia.
Import ListNotations.
Local Open Scope Z_scope.

Definition word := list Z.

Inductive re :=
| Eps
| Chr (c : Z)
| Any                                   (* `.` without DOTALL: anything but \n *)
| Cls (items : list (Z * Z))            (* [..]: inclusive ranges; a literal is (c, c) *)
| Seq (a b : re)
| Alt (a b : re)
| Rep (greedy : bool) (mn : nat) (mx : option nat) (r : re)
| Group (name : Z) (r : re)             (* group names are numbered by the translator *)
| NotAhead (r : re)                     (* (?!r) *)
| Bol                                   (* ^ without MULTILINE *)
| Eol.                                  (* $ without MULTILINE: at end or before one final \n *)

Definition caps := list (Z * word).
Definition cont := word -> caps -> option caps.

Definition lower (c : Z) : Z := if (65 <=? c) && (c <=? 90) then c + 32 else c.

Definition chr_eq (ci : bool) (a x : Z) : bool :=
  if ci then lower a =? lower x else a =? x.

Definition in_cls (items : list (Z * Z)) (x : Z) : bool :=
  existsb (fun it => (fst it <=? x) && (x <=? snd it)) items.

Definition below (mx : option nat) (cnt : nat) : bool :=
  match mx with None => true | Some m => Nat.ltb cnt m end.

Definition accept : cont := fun _ c => Some c.

Definition at_end (s : word) : bool :=
  match s with [] => true | [x] => x =? 10 | _ => false end.

(* the repeat loop, generic in the matcher of the body *)
Fixpoint rep_loop (body : cont -> word -> caps -> option caps) (g : bool) (mn : nat)
    (mx : option nat) (k : cont) (fuel cnt : nat) (s : word) (c : caps) {struct fuel} : option caps :=
  match fuel with
  | O => None
  | S fuel' =>
    if g then
      match (if below mx cnt
             then body (fun s' c' => if Nat.ltb (length s') (length s)
                                     then rep_loop body g mn mx k fuel' (S cnt) s' c' else None) s c
             else None) with
      | Some r => Some r
      | None => if Nat.leb mn cnt then k s c else None
      end
    else
      match (if Nat.leb mn cnt then k s c else None) with
      | Some r => Some r
      | None =>
        if below mx cnt
        then body (fun s' c' => if Nat.ltb (length s') (length s)
                                then rep_loop body g mn mx k fuel' (S cnt) s' c' else None) s c
        else None
      end
  end.

Section Matcher.
  Variable ci : bool.     (* re.IGNORECASE (ASCII letters) *)
  Variable n0 : nat.      (* length of the whole subject, for ^ *)

  Fixpoint go (r : re) (k : cont) (s : word) (c : caps) {struct r} : option caps :=
    match r with
    | Eps => k s c
    | Chr a => match s with x :: s' => if chr_eq ci a x then k s' c else None | [] => None end
    | Any => match s with x :: s' => if x =? 10 then None else k s' c | [] => None end
    | Cls items => match s with x :: s' => if in_cls items x then k s' c else None | [] => None end
    | Seq a b => go a (go b k) s c
    | Alt a b => match go a k s c with Some r => Some r | None => go b k s c end
    | Rep g mn mx r' => rep_loop (go r') g mn mx k (S (length s)) 0 s c
    | Group nm r' =>
        go r' (fun s' c' => k s' ((nm, firstn (length s - length s') s) :: c')) s c
    | NotAhead r' => match go r' accept s c with Some _ => None | None => k s c end
    | Bol => if Nat.eqb (length s) n0 then k s c else None
    | Eol => if at_end s then k s c else None
    end.

  Definition under (mx : option nat) (n : nat) : Prop :=
    match mx with None => True | Some m => (n <= m)%nat end.

  Fixpoint Iter (R : word -> word -> caps -> caps -> Prop) (n : nat) (s1 s2 : word) (c c' : caps) : Prop :=
    match n with
    | O => s1 = [] /\ c' = c
    | S n' => exists sa sb cm, s1 = sa ++ sb /\ sa <> [] /\ R sa (sb ++ s2) c cm /\ Iter R n' sb s2 cm c'
    end.

  Fixpoint M (r : re) (s1 s2 : word) (c c' : caps) {struct r} : Prop :=
    match r with
    | Eps => s1 = [] /\ c' = c
    | Chr a => exists x, s1 = [x] /\ chr_eq ci a x = true /\ c' = c
    | Any => exists x, s1 = [x] /\ x <> 10 /\ c' = c
    | Cls items => exists x, s1 = [x] /\ in_cls items x = true /\ c' = c
    | Seq a b => exists sa sb cm, s1 = sa ++ sb /\ M a sa (sb ++ s2) c cm /\ M b sb s2 cm c'
    | Alt a b => M a s1 s2 c c' \/ M b s1 s2 c c'
    | Rep _ mn mx r' => exists n, (mn <= n)%nat /\ under mx n /\ Iter (M r') n s1 s2 c c'
    | Group nm r' => exists cm, M r' s1 s2 c cm /\ c' = (nm, s1) :: cm
    | NotAhead r' => s1 = [] /\ c' = c /\ ~ (exists sa sb cx, s2 = sa ++ sb /\ M r' sa sb c cx)
    | Bol => s1 = [] /\ c' = c /\ length s2 = n0
    | Eol => s1 = [] /\ c' = c /\ (s2 = [] \/ s2 = [10])
    end.
End Matcher.

(* pattern.match(s): anchored at the start, not at the end *)
Definition rmatch (ci : bool) (r : re) (s : word) : option caps := go ci (length s) r accept s [].

Definition matches (ci : bool) (r : re) (s : word) : bool :=
  match rmatch ci r s with Some _ => true | None => false end.

(* m.group(name): None when the group did not take part (or does not exist) *)
Fixpoint group (nm : Z) (c : caps) : option word :=
  match c with
  | [] => None
  | (n, w) :: c' => if n =? nm then Some w else group nm c'
  end.

(* int(text) for a run of ASCII digits; None if empty or not all digits *)
Definition is_digit (x : Z) : bool := (48 <=? x) && (x <=? 57).
Fixpoint int_of_digits_acc (acc : Z) (w : word) : Z :=
  match w with [] => acc | x :: w' => int_of_digits_acc (acc * 10 + (x - 48)) w' end.
Definition int_of (w : word) : option Z :=
  match w with
  | [] => None
  | _ => if forallb is_digit w then Some (int_of_digits_acc 0 w) else None
  end.

(* a repeat body that cannot match the empty string: the translator enforces this *)
Fixpoint nonnull (r : re) : bool :=
  match r with
  | Eps | NotAhead _ | Bol | Eol => false
  | Chr _ | Any | Cls _ => true
  | Seq a b => nonnull a || nonnull b
  | Alt a b => nonnull a && nonnull b
  | Rep _ mn _ r' => Nat.ltb 0 mn && nonnull r'
  | Group _ r' => nonnull r'
  end.

Fixpoint wf (r : re) : bool :=
  match r with
  | Seq a b | Alt a b => wf a && wf b
  | Rep _ _ _ r' => nonnull r' && wf r'
  | Group _ r' | NotAhead r' => wf r'
  | _ => true
  end.

(* helpers on words *)
Fixpoint starts_with (p s : word) : bool :=
  match p, s with
  | [], _ => true
  | a :: p', b :: s' => (a =? b) && starts_with p' s'
  | _ :: _, [] => false
  end.

Fixpoint word_eqb (a b : word) : bool :=
  match a, b with
  | [], [] => true
  | x :: a', y :: b' => (x =? y) && word_eqb a' b'
  | _, _ => false
  end.
