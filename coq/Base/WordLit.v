(* String literals for words (lists of character codes) that never mention Coq's `string` type,
   so that they can appear in extracted code:  W "tmp."  is the term  W (WL [116; 109; 112; 46]). *)
From Coq Require Import ZArith List.
From Coq.Strings Require Import Byte.
Import ListNotations.
Local Open Scope Z_scope.

Inductive wlit := WL (w : list Z).
Definition wl_parse (l : list Byte.byte) : wlit := WL (map (fun b => Z.of_N (Byte.to_N b)) l).
Definition wl_print (x : wlit) : option (list Byte.byte) :=
  match x with
  | WL w => Some (map (fun z => match Byte.of_N (Z.to_N z) with Some b => b | None => Byte.x00 end) w)
  end.
Declare Scope wlit_scope.
Delimit Scope wlit_scope with wlit.
String Notation wlit wl_parse wl_print : wlit_scope.
Definition W (x : wlit) : list Z := match x with WL w => w end.
Arguments W x%wlit.

Example W_example : W "tmp.@" = [116; 109; 112; 46; 64].
Proof. reflexivity. Qed.
