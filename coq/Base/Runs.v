(* Blocks of contiguous samples, their denotation, canonical form, the reader's cross-file
   merge (`DigitalRFReader._combine_blocks`) and the read Spec `runs`.

   A block is (start index, data); a block list denotes a partial map Z -> option V (first block
   containing the index).  `canon` = non-empty blocks, ascending, strictly separated (so no two
   blocks could be merged); a canonical list is determined by its denotation (`canon_unique`).
   `runs m s e` is the canonical list denoting `m` restricted to [s, e]: the maximal runs of
   consecutive defined indices.  All metamorphic relations of C08 are lemmas about `den` and
   `canon` only (DESIGN Appendix A.1). *)
From Coq Require Import ZArith List Lia Bool Sorted.
Import ListNotations.
Local Open Scope Z_scope.

(* generic facts about StronglySorted *)
Lemma SS_app {A} (R : A -> A -> Prop) (a b : list A) :
  StronglySorted R a -> StronglySorted R b ->
  (forall x y, In x a -> In y b -> R x y) -> StronglySorted R (a ++ b).
Proof.
  induction a as [|x a IH]; simpl; auto.
  intros Ha Hb H. inversion Ha as [|? ? S1 S2]; subst. constructor.
  - apply IH; auto.
  - apply Forall_forall. intros y Hy. apply in_app_or in Hy. destruct Hy as [Hy|Hy].
    + rewrite Forall_forall in S2. auto.
    + apply H; auto.
Qed.

Lemma SS_flat_map {A B} (RA : A -> A -> Prop) (R : B -> B -> Prop) (F : A -> list B) l :
  StronglySorted RA l ->
  (forall a, In a l -> StronglySorted R (F a)) ->
  (forall a a', In a l -> In a' l -> RA a a' -> forall x y, In x (F a) -> In y (F a') -> R x y) ->
  StronglySorted R (flat_map F l).
Proof.
  induction l as [|a l IH]; simpl; intros Hs H1 H2; [constructor|].
  inversion Hs as [|? ? S1 S2]; subst. apply SS_app.
  - apply H1. left. reflexivity.
  - apply IH; [exact S1 | intros a0 Ha0; apply H1; right; exact Ha0 |].
    intros a0 a1 Ha0 Ha1 HR x y Hx Hy. apply (H2 a0 a1); auto; right; auto.
  - intros x y Hx Hy. apply in_flat_map in Hy. destruct Hy as (a' & Ha' & Hy).
    rewrite Forall_forall in S2. apply (H2 a a'); auto; simpl; auto.
Qed.

Ltac zbool :=
  repeat match goal with
         | |- context [?a <=? ?b] => destruct (Z.leb_spec a b)
         | |- context [?a <? ?b] => destruct (Z.ltb_spec a b)
         | |- context [?a =? ?b] => destruct (Z.eqb_spec a b)
         end; simpl; try subst; try reflexivity; try lia.

Section Runs.
Context {V : Type}.

Definition block : Type := (Z * list V)%type.
Definition blen (b : block) : Z := Z.of_nat (length (snd b)).
Definition bend (b : block) : Z := fst b + blen b.                 (* exclusive *)

Definition block_at (b : block) (k : Z) : option V :=
  if (fst b <=? k) && (k <? bend b) then nth_error (snd b) (Z.to_nat (k - fst b)) else None.

Fixpoint den (bs : list block) (k : Z) : option V :=
  match bs with
  | [] => None
  | b :: r => if (fst b <=? k) && (k <? bend b) then nth_error (snd b) (Z.to_nat (k - fst b))
              else den r k
  end.

(* adjacent-pair formulations *)
Fixpoint sorted_gap (strict : bool) (bs : list block) : Prop :=
  match bs with
  | [] => True
  | b :: r => snd b <> [] /\
              match r with
              | [] => True
              | b' :: _ => if strict then bend b < fst b' else bend b <= fst b'
              end /\ sorted_gap strict r
  end.
Notation canon := (sorted_gap true).
Notation sorted_disj := (sorted_gap false).

(* `_combine_blocks`: walk the key-sorted pieces, append a piece that starts exactly where the
   accumulated block ends, otherwise emit the accumulated block and start a new one *)
Fixpoint combine_from (cur : block) (bs : list block) : list block :=
  match bs with
  | [] => [cur]
  | b :: r => if fst b =? bend cur then combine_from (fst cur, snd cur ++ snd b) r
              else cur :: combine_from b r
  end.
Definition combine (bs : list block) : list block :=
  match bs with [] => [] | b :: r => combine_from b r end.

(* the len_only twin (`get_continuous_blocks`): values are lengths *)
Fixpoint combine_len_from (cur : Z * Z) (bs : list (Z * Z)) : list (Z * Z) :=
  match bs with
  | [] => [cur]
  | b :: r => if fst b =? fst cur + snd cur then combine_len_from (fst cur, snd cur + snd b) r
              else cur :: combine_len_from b r
  end.
Definition combine_len (bs : list (Z * Z)) : list (Z * Z) :=
  match bs with [] => [] | b :: r => combine_len_from b r end.
Definition lens (bs : list block) : list (Z * Z) := map (fun b => (fst b, blen b)) bs.

(* ------------------------------------------------------------------ basic facts *)
Implicit Types (b x y cur : block) (r bs : list block).

Lemma blen_pos b : snd b <> [] -> 0 < blen b.
Proof. unfold blen. destruct (snd b); [congruence | simpl; lia]. Qed.

Lemma blen_nonneg b : 0 <= blen b.
Proof. unfold blen. lia. Qed.

Lemma canon_sorted_disj bs : canon bs -> sorted_disj bs.
Proof.
  induction bs as [|b r IH]; simpl; auto.
  intros (H1 & H2 & H3). split; auto. split; auto. destruct r; auto. lia.
Qed.

Lemma sorted_gap_tail st b r : sorted_gap st (b :: r) -> sorted_gap st r.
Proof. simpl. tauto. Qed.

Lemma sorted_disj_tail b r : sorted_disj (b :: r) -> sorted_disj r.
Proof. apply (sorted_gap_tail false). Qed.

Lemma canon_tail b r : canon (b :: r) -> canon r.
Proof. apply (sorted_gap_tail true). Qed.

Lemma sorted_gap_nonempty st bs b : sorted_gap st bs -> In b bs -> snd b <> [].
Proof.
  induction bs as [|a r IH]; simpl; [tauto|]. intros (H1 & _ & H3) [<-|Hin]; auto.
Qed.

(* every later block starts at or after the end of the head *)
Lemma sorted_disj_lb b r : sorted_disj (b :: r) -> forall x, In x r -> bend b <= fst x.
Proof.
  revert b. induction r as [|a r IH]; simpl; [tauto|].
  intros b (Hb & Hle & Hr) x [<-|Hin]; [exact Hle|].
  assert (bend a <= fst x) by (apply IH; auto).
  destruct Hr as (Ha & _). pose proof (blen_pos a Ha). unfold bend in *. lia.
Qed.

Lemma canon_lb b r : canon (b :: r) -> forall x, In x r -> bend b < fst x.
Proof.
  intros Hc x Hin. destruct r as [|a r]; [inversion Hin|].
  destruct Hc as (Hb & Hlt & Hr). destruct Hin as [<-|Hin]; [exact Hlt|].
  pose proof (sorted_disj_lb a r (canon_sorted_disj _ Hr) x Hin).
  destruct Hr as (Ha & _). pose proof (blen_pos a Ha). unfold bend in *. lia.
Qed.

Lemma den_none_below bs k : (forall x, In x bs -> k < fst x) -> den bs k = None.
Proof.
  induction bs as [|b r IH]; simpl; auto. intros H.
  pose proof (H b (or_introl eq_refl)).
  replace (fst b <=? k) with false by (symmetry; apply Z.leb_gt; lia). simpl.
  apply IH. intros x Hx. apply H. auto.
Qed.

Lemma den_cons b r k :
  den (b :: r) k = match block_at b k with Some v => Some v | None => den r k end
  \/ (fst b <= k < bend b /\ nth_error (snd b) (Z.to_nat (k - fst b)) = None).
Proof.
  simpl. unfold block_at. destruct ((fst b <=? k) && (k <? bend b)) eqn:E; auto.
  destruct (nth_error (snd b) (Z.to_nat (k - fst b))) eqn:En; auto.
  right. split; auto. apply andb_true_iff in E. lia.
Qed.

Lemma nth_error_in_block (b : block) k :
  fst b <= k < bend b -> exists v, nth_error (snd b) (Z.to_nat (k - fst b)) = Some v.
Proof.
  unfold bend, blen. intros H.
  destruct (nth_error (snd b) (Z.to_nat (k - fst b))) eqn:E; eauto.
  apply nth_error_None in E. lia.
Qed.

Lemma den_head b r k : fst b <= k < bend b ->
  den (b :: r) k = nth_error (snd b) (Z.to_nat (k - fst b)).
Proof.
  intros H. simpl.
  replace ((fst b <=? k) && (k <? bend b)) with true; auto.
  symmetry. apply andb_true_iff. split; [apply Z.leb_le | apply Z.ltb_lt]; lia.
Qed.

Lemma den_skip b r k : ~ (fst b <= k < bend b) -> den (b :: r) k = den r k.
Proof.
  intros H. simpl.
  destruct ((fst b <=? k) && (k <? bend b)) eqn:E; auto.
  apply andb_true_iff in E. destruct E as [E1 E2].
  apply Z.leb_le in E1. apply Z.ltb_lt in E2. lia.
Qed.

Lemma den_some_in bs k v : den bs k = Some v ->
  exists b, In b bs /\ fst b <= k < bend b /\ nth_error (snd b) (Z.to_nat (k - fst b)) = Some v.
Proof.
  induction bs as [|b r IH]; simpl; [discriminate|].
  destruct ((fst b <=? k) && (k <? bend b)) eqn:E.
  - intros H. exists b. apply andb_true_iff in E. destruct E as [E1 E2].
    apply Z.leb_le in E1. apply Z.ltb_lt in E2. repeat split; auto.
  - intros H. destruct (IH H) as (x & Hx & Hr). exists x. split; auto.
Qed.

(* in a sorted list each block owns its indices *)
Lemma den_in bs b k : sorted_disj bs -> In b bs -> fst b <= k < bend b ->
  den bs k = nth_error (snd b) (Z.to_nat (k - fst b)).
Proof.
  induction bs as [|a r IH]; simpl; [tauto|].
  intros Hs [->|Hin] Hk.
  - apply (den_head b r k Hk).
  - pose proof (sorted_disj_lb a r Hs b Hin).
    change (den (a :: r) k = nth_error (snd b) (Z.to_nat (k - fst b))).
    rewrite den_skip by lia. apply IH; auto. apply (sorted_disj_tail _ _ Hs).
Qed.

Lemma den_app' (a b : list block) k :
  den (a ++ b) k = match den a k with Some v => Some v | None => den b k end.
Proof.
  induction a as [|x a IH]; simpl; auto.
  destruct ((fst x <=? k) && (k <? bend x)) eqn:E; simpl; auto.
  apply andb_true_iff in E. destruct E as [E1 E2].
  apply Z.leb_le in E1. apply Z.ltb_lt in E2.
  destruct (nth_error_in_block x k ltac:(lia)) as (v & Hv). rewrite Hv. reflexivity.
Qed.

(* ------------------------------------------------------------------ StronglySorted form *)

Definition bbefore (x y : block) : Prop := bend x <= fst y.

Lemma sorted_disj_SS bs :
  sorted_disj bs <-> (Forall (fun b => snd b <> []) bs /\ StronglySorted bbefore bs).
Proof.
  induction bs as [|b r IH]; simpl.
  - split; auto. intros _. split; constructor.
  - split.
    + intros H. pose proof (sorted_disj_lb b r H) as Hlb.
      destruct H as (H1 & H2 & H3). apply IH in H3. destruct H3 as [F S].
      split; constructor; auto. apply Forall_forall. exact Hlb.
    + intros [F S]. inversion F as [|? ? F1 F2]; subst. inversion S as [|? ? S1 S2]; subst.
      split; auto. split.
      * destruct r as [|a r]; auto. apply (Forall_inv S2).
      * apply IH. split; auto.
Qed.

Lemma sorted_disj_app (a b : list block) : sorted_disj a -> sorted_disj b ->
  (forall x y, In x a -> In y b -> bend x <= fst y) -> sorted_disj (a ++ b).
Proof.
  intros Ha Hb H. apply sorted_disj_SS in Ha. apply sorted_disj_SS in Hb.
  apply sorted_disj_SS. destruct Ha, Hb. split.
  - apply Forall_app. auto.
  - apply SS_app; auto.
Qed.

Lemma sorted_disj_app_inv (a b : list block) : sorted_disj (a ++ b) -> sorted_disj a /\ sorted_disj b.
Proof.
  induction a as [|x a IH]; simpl.
  - intros H. split; [exact I | exact H].
  - intros (H1 & H2 & H3). destruct (IH H3) as [Ha Hb]. split; auto.
    split; auto. split; auto. destruct a; simpl in *; auto.
Qed.

(* ------------------------------------------------------------------ combine *)

Lemma combine_from_den cur bs k : sorted_disj (cur :: bs) ->
  den (combine_from cur bs) k = den (cur :: bs) k.
Proof.
  revert cur. induction bs as [|b r IH]; intros cur Hs; [reflexivity|].
  simpl combine_from. destruct (Z.eqb_spec (fst b) (bend cur)) as [E|E].
  - destruct Hs as (Hc & _ & Hr). destruct Hr as (Hb & Hbr & Hr).
    rewrite IH.
    + set (cur' := (fst cur, snd cur ++ snd b) : block).
      assert (Hend : bend cur' = bend b).
      { unfold bend, blen, cur' in *. simpl. rewrite app_length. lia. }
      destruct (Z_lt_le_dec k (fst cur)) as [L|L].
      { rewrite !den_skip; auto; unfold cur'; simpl; try lia.
        pose proof (blen_nonneg cur). unfold bend in *. lia. }
      destruct (Z_lt_le_dec k (bend cur)) as [L2|L2].
      { rewrite (den_head cur' r k) by (unfold cur' in *; simpl; pose proof (blen_nonneg b);
                                           unfold bend in *; simpl in *; lia).
        rewrite (den_head cur (b :: r) k) by lia.
        unfold cur'. simpl. rewrite nth_error_app1; auto.
        unfold bend, blen in L2. lia. }
      destruct (Z_lt_le_dec k (bend b)) as [L3|L3].
      { rewrite (den_head cur' r k) by (unfold cur' in *; simpl; lia).
        rewrite (den_skip cur (b :: r) k) by lia.
        rewrite (den_head b r k) by lia.
        unfold cur'. simpl. rewrite nth_error_app2 by (unfold bend, blen in L2; lia).
        f_equal. unfold bend, blen in *. lia. }
      rewrite (den_skip cur' r k) by lia.
      rewrite (den_skip cur (b :: r) k) by lia.
      rewrite (den_skip b r k) by lia. reflexivity.
    + split; [|split; [|exact Hr]].
      * simpl. destruct (snd cur); [congruence | discriminate].
      * destruct r as [|a r]; auto.
        assert (bend (fst cur, snd cur ++ snd b) = bend b).
        { unfold bend, blen in *. simpl. rewrite app_length. lia. }
        simpl in Hbr. unfold bend in *. simpl in *. lia.
  - simpl den at 1. rewrite IH; [reflexivity|]. apply (sorted_disj_tail _ _ Hs).
Qed.

Lemma combine_from_head cur bs : exists d r, combine_from cur bs = (fst cur, d) :: r.
Proof.
  revert cur. induction bs as [|b r IH]; intros cur; simpl.
  - exists (snd cur), []. destruct cur; reflexivity.
  - destruct (fst b =? bend cur).
    + destruct (IH (fst cur, snd cur ++ snd b)) as (d & r' & E). simpl in E. eauto.
    + exists (snd cur), (combine_from b r). destruct cur; reflexivity.
Qed.

Lemma combine_from_canon cur bs : sorted_disj (cur :: bs) -> canon (combine_from cur bs).
Proof.
  revert cur. induction bs as [|b r IH]; intros cur Hs.
  - destruct Hs as (Hc & _). simpl. repeat split; auto.
  - simpl combine_from. destruct (Z.eqb_spec (fst b) (bend cur)) as [E|E].
    + apply IH. destruct Hs as (Hc & _ & Hb & Hbr & Hr).
      split; [|split; [|exact Hr]].
      * simpl. destruct (snd cur); [congruence | discriminate].
      * destruct r as [|a r]; auto.
        assert (bend (fst cur, snd cur ++ snd b) = bend b).
        { unfold bend, blen in *. simpl. rewrite app_length. lia. }
        simpl in Hbr. unfold bend in *. simpl in *. lia.
    + assert (Hr : sorted_disj (b :: r)) by apply (sorted_disj_tail _ _ Hs).
      specialize (IH b Hr). destruct (combine_from_head b r) as (d & r' & Er).
      rewrite Er in *. destruct Hs as (Hc & Hle & _).
      split; auto. split; auto. simpl. lia.
Qed.

Lemma combine_den bs k : sorted_disj bs -> den (combine bs) k = den bs k.
Proof. destruct bs; auto. apply combine_from_den. Qed.

Lemma combine_canon bs : sorted_disj bs -> canon (combine bs).
Proof. destruct bs; [intros; exact I|]. apply combine_from_canon. Qed.

(* a canonical list is a fixed point of combine *)
Lemma combine_from_canon_id cur bs : canon (cur :: bs) -> combine_from cur bs = cur :: bs.
Proof.
  revert cur. induction bs as [|b r IH]; intros cur Hc; auto.
  simpl. destruct Hc as (H1 & H2 & H3).
  destruct (Z.eqb_spec (fst b) (bend cur)); [lia|]. f_equal. apply IH. exact H3.
Qed.

Lemma combine_canon_id bs : canon bs -> combine bs = bs.
Proof. destruct bs; auto. apply combine_from_canon_id. Qed.

(* lengths: the len_only path computes the lengths of the data path *)
Lemma combine_len_from_lens cur bs :
  combine_len_from (fst cur, blen cur) (lens bs) = lens (combine_from cur bs).
Proof.
  revert cur. induction bs as [|b r IH]; intros cur; simpl; auto.
  change (fst cur + blen cur) with (bend cur).
  destruct (fst b =? bend cur).
  - rewrite <- IH. simpl. f_equal. f_equal. unfold blen. simpl. rewrite app_length. lia.
  - simpl. f_equal. apply IH.
Qed.

Lemma combine_len_lens bs : combine_len (lens bs) = lens (combine bs).
Proof. destruct bs; auto. apply combine_len_from_lens. Qed.

(* ------------------------------------------------------------------ uniqueness *)

Lemma nth_error_ext' (a b : list V) : (forall i, nth_error a i = nth_error b i) -> a = b.
Proof.
  revert b. induction a as [|x a IH]; intros [|y b] H; auto.
  - specialize (H O). discriminate.
  - specialize (H O). discriminate.
  - pose proof (H O) as H0. simpl in H0. inversion H0; subst. f_equal.
    apply IH. intros i. apply (H (S i)).
Qed.

Lemma canon_den_end b r : canon (b :: r) -> den (b :: r) (bend b) = None.
Proof.
  intros Hc. rewrite den_skip by lia. apply den_none_below.
  intros x Hx. apply (canon_lb b r Hc x Hx).
Qed.

Lemma canon_den_first b r : sorted_disj (b :: r) -> exists v, den (b :: r) (fst b) = Some v.
Proof.
  intros (Hb & _). pose proof (blen_pos b Hb).
  rewrite den_head by (unfold bend; lia). apply nth_error_in_block. unfold bend. lia.
Qed.

Lemma den_some_ge_head b r k v : sorted_disj (b :: r) -> den (b :: r) k = Some v -> fst b <= k.
Proof.
  intros Hs H. apply den_some_in in H. destruct H as (x & [<-|Hin] & Hk & _); [lia|].
  pose proof (sorted_disj_lb b r Hs x Hin). pose proof (blen_nonneg b). unfold bend in *. lia.
Qed.

Theorem canon_unique (a b : list block) : canon a -> canon b -> (forall k, den a k = den b k) -> a = b.
Proof.
  revert b. induction a as [|x a IH]; intros [|y b] Ha Hb H; auto.
  - destruct (canon_den_first y b (canon_sorted_disj _ Hb)) as (v & Hv).
    specialize (H (fst y)). rewrite Hv in H. simpl in H. discriminate.
  - destruct (canon_den_first x a (canon_sorted_disj _ Ha)) as (v & Hv).
    specialize (H (fst x)). rewrite Hv in H. simpl in H. discriminate.
  - pose proof (canon_sorted_disj _ Ha) as Sa. pose proof (canon_sorted_disj _ Hb) as Sb.
    assert (Hfst : fst x = fst y).
    { destruct (canon_den_first x a Sa) as (v & Hv). destruct (canon_den_first y b Sb) as (w & Hw).
      pose proof (den_some_ge_head y b (fst x) v Sb ltac:(rewrite <- H; exact Hv)).
      pose proof (den_some_ge_head x a (fst y) w Sa ltac:(rewrite H; exact Hw)). lia. }
    assert (Hx : 0 < blen x) by (apply blen_pos; apply Ha).
    assert (Hy : 0 < blen y) by (apply blen_pos; apply Hb).
    assert (Hend : bend x = bend y).
    { destruct (Z.lt_trichotomy (bend x) (bend y)) as [L|[L|L]]; auto; exfalso.
      - pose proof (canon_den_end x a Ha) as E. rewrite H in E.
        rewrite den_head in E by (unfold bend in *; lia).
        destruct (nth_error_in_block y (bend x) ltac:(unfold bend in *; lia)) as (v & Hv). congruence.
      - pose proof (canon_den_end y b Hb) as E. rewrite <- H in E.
        rewrite den_head in E by (unfold bend in *; lia).
        destruct (nth_error_in_block x (bend y) ltac:(unfold bend in *; lia)) as (v & Hv). congruence. }
    assert (Hdata : snd x = snd y).
    { apply nth_error_ext'. intros i.
      destruct (Z_lt_le_dec (Z.of_nat i) (blen x)) as [L|L].
      - specialize (H (fst x + Z.of_nat i)).
        rewrite den_head in H by (unfold bend; lia).
        rewrite den_head in H by (unfold bend in *; lia).
        rewrite Hfst in H at 2.
        replace (Z.to_nat (fst x + Z.of_nat i - fst x)) with i in H by lia.
        replace (Z.to_nat (fst x + Z.of_nat i - fst y)) with i in H by lia. exact H.
      - assert (blen y = blen x) by (unfold bend in *; lia).
        transitivity (@None V); [|symmetry]; apply nth_error_None; unfold blen in *; lia. }
    assert (x = y) by (destruct x, y; simpl in *; congruence). subst y. f_equal.
    apply IH.
    + apply (canon_tail _ _ Ha).
    + apply (canon_tail _ _ Hb).
    + intros k. specialize (H k).
      destruct (Z_lt_le_dec k (bend x)) as [L|L].
      * transitivity (@None V); [|symmetry]; apply den_none_below; intros z Hz.
        -- pose proof (canon_lb x a Ha z Hz). lia.
        -- pose proof (canon_lb x b Hb z Hz). lia.
      * rewrite !den_skip in H by lia. exact H.
Qed.

(* ------------------------------------------------------------------ the read Spec *)

Definition restrict (m : Z -> option V) (s e k : Z) : option V :=
  if (s <=? k) && (k <=? e) then m k else None.

Definition is_runs (m : Z -> option V) (s e : Z) (r : list block) : Prop :=
  canon r /\ forall k, den r k = restrict m s e k.

Lemma is_runs_unique m s e r r' : is_runs m s e r -> is_runs m s e r' -> r = r'.
Proof.
  intros [C1 D1] [C2 D2]. apply canon_unique; auto. intros k. rewrite D1, D2. reflexivity.
Qed.

(* functional form: scan the range from the left; put a defined sample in front of the block
   that starts right after it, if any *)
Definition cons_sample (k : Z) (v : V) (bs : list block) : list block :=
  match bs with
  | b :: r => if fst b =? k + 1 then (k, v :: snd b) :: r else (k, [v]) :: bs
  | [] => [(k, [v])]
  end.

Fixpoint scan (m : Z -> option V) (s : Z) (n : nat) : list block :=
  match n with
  | O => []
  | S n' => match m s with
            | None => scan m (s + 1) n'
            | Some v => cons_sample s v (scan m (s + 1) n')
            end
  end.

Definition runs (m : Z -> option V) (s e : Z) : list block := scan m s (Z.to_nat (e - s + 1)).

Lemma cons_sample_spec k v bs :
  canon bs -> (forall x, In x bs -> k < fst x) ->
  canon (cons_sample k v bs) /\
  (forall x, In x (cons_sample k v bs) -> k <= fst x) /\
  (forall j, den (cons_sample k v bs) j = if j =? k then Some v else den bs j).
Proof.
  intros Hc Hlb. destruct bs as [|b r]; unfold cons_sample.
  - simpl. repeat split; auto; try discriminate.
    + intros x [<-|[]]. simpl. lia.
    + intros j. unfold bend, blen. simpl.
      destruct (Z.eqb_spec j k) as [->|N].
      * rewrite Z.leb_refl. simpl. replace (k <? k + 1) with true by (symmetry; apply Z.ltb_lt; lia).
        rewrite Z.sub_diag. reflexivity.
      * destruct (k <=? j) eqn:E1; simpl; auto. destruct (j <? k + 1) eqn:E2; auto.
        apply Z.leb_le in E1. apply Z.ltb_lt in E2. lia.
  - pose proof (Hlb b (or_introl eq_refl)) as Hb.
    destruct (Z.eqb_spec (fst b) (k + 1)) as [E|E].
    + destruct Hc as (H1 & H2 & H3).
      assert (Hend : bend (k, v :: snd b) = bend b) by (unfold bend, blen; simpl; lia).
      split; [|split].
      * split; [simpl; discriminate|]. split; auto. destruct r; auto. rewrite Hend. exact H2.
      * intros x [<-|Hin]; simpl; [lia|]. pose proof (Hlb x (or_intror Hin)). lia.
      * intros j. destruct (Z.eqb_spec j k) as [->|N].
        -- rewrite den_head by (rewrite Hend; simpl; pose proof (blen_nonneg b); unfold bend; lia).
           simpl. rewrite Z.sub_diag. reflexivity.
        -- destruct (Z_lt_le_dec j k) as [L|L].
           ++ rewrite (den_skip (k, v :: snd b)) by (simpl; lia).
              rewrite (den_skip b) by lia. reflexivity.
           ++ destruct (Z_lt_le_dec j (bend b)) as [L2|L2].
              ** rewrite (den_head (k, v :: snd b)) by (rewrite Hend; simpl; lia).
                 rewrite (den_head b) by lia. simpl.
                 replace (Z.to_nat (j - k)) with (S (Z.to_nat (j - fst b))) by lia. reflexivity.
              ** rewrite (den_skip (k, v :: snd b)) by (rewrite Hend; lia).
                 rewrite (den_skip b) by lia. reflexivity.
    + split; [|split].
      * split; [simpl; discriminate|]. split; [|exact Hc]. unfold bend, blen. simpl. lia.
      * intros x [<-|Hin]; simpl; [lia|]. pose proof (Hlb x Hin). lia.
      * intros j. destruct (Z.eqb_spec j k) as [->|N].
        -- rewrite den_head by (unfold bend, blen; simpl; lia). simpl. rewrite Z.sub_diag. reflexivity.
        -- rewrite (den_skip (k, [v])) by (unfold bend, blen; simpl; lia). reflexivity.
Qed.

Lemma scan_spec m n : forall s,
  canon (scan m s n) /\
  (forall x, In x (scan m s n) -> s <= fst x) /\
  (forall j, den (scan m s n) j = restrict m s (s + Z.of_nat n - 1) j).
Proof.
  induction n as [|n IH]; intros s.
  - simpl. repeat split; auto; try tauto. intros j. unfold restrict.
    destruct (s <=? j) eqn:E1; simpl; auto. destruct (j <=? s + 0 - 1) eqn:E2; auto.
    apply Z.leb_le in E1. apply Z.leb_le in E2. lia.
  - destruct (IH (s + 1)) as (C & LB & D). simpl scan.
    assert (R : forall j, restrict m s (s + Z.of_nat (S n) - 1) j =
                          if j =? s then m s else restrict m (s + 1) (s + 1 + Z.of_nat n - 1) j).
    { intros j. unfold restrict. rewrite Nat2Z.inj_succ. zbool. }
    destruct (m s) as [v|] eqn:Ms.
    + destruct (cons_sample_spec s v (scan m (s + 1) n) C) as (C' & LB' & D').
      { intros x Hx. pose proof (LB x Hx). lia. }
      split; auto. split; auto. intros j. rewrite D', R, D. reflexivity.
    + split; auto. split.
      * intros x Hx. pose proof (LB x Hx). lia.
      * intros j. rewrite R, D. destruct (Z.eqb_spec j s) as [->|N]; auto.
        unfold restrict. replace (s + 1 <=? s) with false; auto. symmetry. apply Z.leb_gt. lia.
Qed.

Theorem runs_is_runs m s e : is_runs m s e (runs m s e).
Proof.
  unfold runs. destruct (scan_spec m (Z.to_nat (e - s + 1)) s) as (C & _ & D).
  split; auto. intros j. rewrite D. unfold restrict.
  destruct (Z_lt_le_dec e s) as [L|L].
  - replace (Z.to_nat (e - s + 1)) with O by lia. simpl. zbool.
  - replace (s + Z.of_nat (Z.to_nat (e - s + 1)) - 1) with e by lia. reflexivity.
Qed.

Lemma runs_den m s e k : den (runs m s e) k = restrict m s e k.
Proof. apply runs_is_runs. Qed.

Lemma runs_canon m s e : canon (runs m s e).
Proof. apply runs_is_runs. Qed.

(* the characterisation used by reader_refines *)
Theorem runs_unique m s e r : canon r -> (forall k, den r k = restrict m s e k) -> r = runs m s e.
Proof. intros C D. apply (is_runs_unique m s e); [split; auto | apply runs_is_runs]. Qed.

Lemma runs_ext m m' s e : (forall k, s <= k <= e -> m k = m' k) -> runs m s e = runs m' s e.
Proof.
  intros H. apply runs_unique; [apply runs_canon|]. intros k. rewrite runs_den. unfold restrict.
  destruct (s <=? k) eqn:E1; destruct (k <=? e) eqn:E2; simpl; auto.
  apply Z.leb_le in E1. apply Z.leb_le in E2. apply H. lia.
Qed.

(* blocks of a run list lie inside the range and carry the map's values *)
Lemma runs_block_range m s e (b : block) : In b (runs m s e) -> s <= fst b /\ bend b - 1 <= e /\ 0 < blen b.
Proof.
  intros Hin. pose proof (runs_canon m s e) as C. pose proof (canon_sorted_disj _ C) as S.
  pose proof (blen_pos b (sorted_gap_nonempty _ _ _ S Hin)) as Hp.
  pose proof (den_in _ b (fst b) S Hin ltac:(unfold bend; lia)) as D1.
  pose proof (den_in _ b (bend b - 1) S Hin ltac:(unfold bend; lia)) as D2.
  destruct (nth_error_in_block b (fst b) ltac:(unfold bend; lia)) as (v1 & E1).
  destruct (nth_error_in_block b (bend b - 1) ltac:(unfold bend; lia)) as (v2 & E2).
  rewrite runs_den, E1 in D1. rewrite runs_den, E2 in D2. unfold restrict in *.
  destruct (s <=? fst b) eqn:A1; simpl in D1; [|discriminate].
  destruct (s <=? bend b - 1) eqn:A2; simpl in D2; [|discriminate].
  destruct (bend b - 1 <=? e) eqn:A3; [|discriminate].
  apply Z.leb_le in A1. apply Z.leb_le in A3. lia.
Qed.

(* split invariance: reading [s,e] = merging the reads of [s,k] and [k+1,e] *)
Definition merge (a b : list block) : list block := combine (a ++ b).

Theorem runs_split m s k e : s <= k + 1 -> k <= e ->
  runs m s e = merge (runs m s k) (runs m (k + 1) e).
Proof.
  intros H1 H2. symmetry. unfold merge.
  assert (S : sorted_disj (runs m s k ++ runs m (k + 1) e)).
  { apply sorted_disj_app; try (apply canon_sorted_disj; apply runs_canon).
    intros x y Hx Hy. apply runs_block_range in Hx. apply runs_block_range in Hy. lia. }
  apply runs_unique; [apply combine_canon; exact S|].
  intros j. rewrite combine_den by exact S. rewrite den_app', !runs_den. unfold restrict.
  destruct (s <=? j) eqn:A1; destruct (j <=? k) eqn:A2; destruct (k + 1 <=? j) eqn:A3;
    destruct (j <=? e) eqn:A4; simpl; try reflexivity; try (destruct (m j); reflexivity);
    repeat match goal with
           | H : (_ <=? _) = true |- _ => apply Z.leb_le in H
           | H : (_ <=? _) = false |- _ => apply Z.leb_gt in H
           end; lia.
Qed.

(* a fully covered range is one block holding exactly the requested samples *)
Theorem runs_covered m s e : s <= e -> (forall k, s <= k <= e -> m k <> None) ->
  exists vs, runs m s e = [(s, vs)] /\ Z.of_nat (length vs) = e - s + 1 /\
             forall i, 0 <= i <= e - s -> nth_error vs (Z.to_nat i) = m (s + i).
Proof.
  intros Hse Hcov.
  assert (Hall : forall n s0, (forall k, s0 <= k < s0 + Z.of_nat n -> m k <> None) ->
            exists vs, length vs = n /\ forall i, (i < n)%nat -> nth_error vs i = m (s0 + Z.of_nat i)).
  { induction n as [|n IH]; intros s0 H.
    - exists []. split; auto. intros i Hi. lia.
    - destruct (m s0) as [v|] eqn:E; [|exfalso; apply (H s0); [lia|auto]].
      destruct (IH (s0 + 1)) as (vs & L & N). { intros k Hk. apply H. lia. }
      exists (v :: vs). split; [simpl; lia|]. intros [|i] Hi; simpl.
      + rewrite Z.add_0_r. auto.
      + rewrite N by lia. f_equal. lia. }
  destruct (Hall (Z.to_nat (e - s + 1)) s) as (vs & L & N).
  { intros k Hk. apply Hcov. lia. }
  exists vs. split; [|split].
  - symmetry. apply runs_unique.
    + simpl. repeat split; auto. destruct vs; [simpl in L; lia | discriminate].
    + intros k. simpl. unfold bend, blen, restrict. simpl. rewrite L.
      replace (s + Z.of_nat (Z.to_nat (e - s + 1))) with (e + 1) by lia.
      destruct (s <=? k) eqn:A1; simpl; auto.
      destruct (k <? e + 1) eqn:A2; destruct (k <=? e) eqn:A3; auto;
        apply Z.leb_le in A1; try apply Z.ltb_lt in A2; try apply Z.ltb_ge in A2;
        try apply Z.leb_le in A3; try apply Z.leb_gt in A3; try lia.
      rewrite N by lia. f_equal. lia.
  - lia.
  - intros i Hi. rewrite N by lia. f_equal. lia.
Qed.

(* conversely: a single block of the full length means every index is present *)
Lemma runs_single_full m s e vs : s <= e -> runs m s e = [(s, vs)] ->
  Z.of_nat (length vs) = e - s + 1 -> forall k, s <= k <= e -> m k <> None.
Proof.
  intros Hse R L k Hk. pose proof (runs_den m s e k) as D. rewrite R in D.
  rewrite den_head in D by (unfold bend, blen; simpl; lia).
  destruct (nth_error_in_block (s, vs) k ltac:(unfold bend, blen; simpl; lia)) as (v & Hv).
  rewrite Hv in D. unfold restrict in D.
  replace ((s <=? k) && (k <=? e)) with true in D; [congruence|].
  symmetry. apply andb_true_iff. split; apply Z.leb_le; lia.
Qed.

(* first/last index a read can return *)
Theorem runs_bounds m s e (b : block) lo hi : (forall k, m k <> None -> lo <= k <= hi) ->
  In b (runs m s e) -> lo <= fst b /\ bend b - 1 <= hi.
Proof.
  intros Hdom Hin. pose proof (runs_canon m s e) as C. pose proof (canon_sorted_disj _ C) as S.
  pose proof (blen_pos b (sorted_gap_nonempty _ _ _ S Hin)) as Hp.
  assert (Hk : forall k, fst b <= k < bend b -> m k <> None).
  { intros k Hk. pose proof (den_in _ b k S Hin Hk) as D.
    destruct (nth_error_in_block b k Hk) as (v & Hv). rewrite runs_den, Hv in D.
    unfold restrict in D. destruct ((s <=? k) && (k <=? e)); congruence. }
  pose proof (Hdom _ (Hk (fst b) ltac:(unfold bend; lia))).
  pose proof (Hdom _ (Hk (bend b - 1) ltac:(unfold bend; lia))). lia.
Qed.

End Runs.
Notation canon := (sorted_gap true).
Notation sorted_disj := (sorted_gap false).

(* ------------------------------------------------------------------ columns *)
Section Columns.
Context {V W : Type} (f : V -> W).

Definition bmap (b : @block V) : @block W := (fst b, map f (snd b)).

Lemma bend_bmap b : bend (bmap b) = bend b.
Proof. unfold bend, blen, bmap. simpl. rewrite map_length. reflexivity. Qed.

Lemma den_bmap bs k : den (map bmap bs) k = option_map f (den bs k).
Proof.
  induction bs as [|b r IH]; simpl; auto.
  fold (bmap b). rewrite bend_bmap.
  destruct ((fst b <=? k) && (k <? bend b)); auto.
  apply nth_error_map.
Qed.

Lemma sorted_gap_bmap st bs : sorted_gap st bs -> sorted_gap st (map bmap bs).
Proof.
  induction bs as [|b r IH]; simpl; auto. intros (H1 & H2 & H3).
  split; [|split; auto].
  - destruct (snd b); [congruence | discriminate].
  - destruct r as [|a r]; simpl; auto. fold (bmap b). rewrite bend_bmap. exact H2.
Qed.

Lemma combine_from_bmap cur bs :
  combine_from (bmap cur) (map bmap bs) = map bmap (combine_from cur bs).
Proof.
  revert cur. induction bs as [|b r IH]; intros cur; simpl; auto.
  fold (bmap cur). rewrite bend_bmap.
  destruct (fst b =? bend cur).
  - rewrite <- IH. unfold bmap. simpl. rewrite map_app. reflexivity.
  - simpl. f_equal. apply IH.
Qed.

Lemma combine_bmap bs : combine (map bmap bs) = map bmap (combine bs).
Proof. destruct bs; auto. apply combine_from_bmap. Qed.

(* selecting a column of the recording = taking that column of every block *)
Theorem runs_column m s e :
  runs (fun k => option_map f (m k)) s e = map bmap (runs m s e).
Proof.
  symmetry. apply runs_unique.
  - apply sorted_gap_bmap. apply runs_canon.
  - intros k. rewrite den_bmap, runs_den. unfold restrict.
    destruct ((s <=? k) && (k <=? e)); reflexivity.
Qed.
End Columns.
