(* Wrap-around arithmetic of the C integer types used by rf_write_hdf5.c.
   Every node of the regenerated terms (Gen/*.v) goes through these, so the
   theorems are about 64-bit C arithmetic, not about unbounded Z. *)
From Coq Require Import ZArith Lia Bool.
Local Open Scope Z_scope.

Definition W64 : Z := 18446744073709551616.       (* 2^64 *)
Definition H64 : Z := 9223372036854775808.        (* 2^63 *)
Definition W32 : Z := 4294967296.
Definition H32 : Z := 2147483648.

Definition b2z (b : bool) : Z := if b then 1 else 0.
Definition neqb (a b : Z) : bool := negb (Z.eqb a b).

(* unsigned 64 *)
Definition cast_u64 (x : Z) : Z := x mod W64.
Definition u64_add (a b : Z) : Z := (a + b) mod W64.
Definition u64_sub (a b : Z) : Z := (a - b) mod W64.
Definition u64_mul (a b : Z) : Z := (a * b) mod W64.
Definition u64_div (a b : Z) : Z := a / b.          (* b = 0 is UB in C; theorems show b <> 0 *)
Definition u64_rem (a b : Z) : Z := a mod b.

(* signed: two's complement wrap; C truncating division *)
Definition wrap_s (h w x : Z) : Z := (x + h) mod w - h.
Definition cast_i64 (x : Z) : Z := wrap_s H64 W64 x.
Definition cast_i32 (x : Z) : Z := wrap_s H32 W32 x.
Definition i64_add a b := cast_i64 (a + b).
Definition i64_sub a b := cast_i64 (a - b).
Definition i64_mul a b := cast_i64 (a * b).
Definition i64_div a b := cast_i64 (Z.quot a b).
Definition i64_rem a b := Z.rem a b.
Definition i64_neg a := cast_i64 (- a).
Definition i32_add a b := cast_i32 (a + b).
Definition i32_sub a b := cast_i32 (a - b).
Definition i32_mul a b := cast_i32 (a * b).
Definition i32_div a b := cast_i32 (Z.quot a b).
Definition i32_rem a b := Z.rem a b.
Definition i32_neg a := cast_i32 (- a).

Lemma W64_eq : W64 = 2 ^ 64. Proof. reflexivity. Qed.

Lemma u64_small x : 0 <= x < W64 -> x mod W64 = x.
Proof. intros; apply Z.mod_small; assumption. Qed.

Lemma cast_u64_small x : 0 <= x < W64 -> cast_u64 x = x.
Proof. apply u64_small. Qed.

Lemma cast_i64_small x : - H64 <= x < H64 -> cast_i64 x = x.
Proof. unfold cast_i64, wrap_s, H64, W64; intros. rewrite Z.mod_small; lia. Qed.

Lemma cast_i32_small x : - H32 <= x < H32 -> cast_i32 x = x.
Proof. unfold cast_i32, wrap_s, H32, W32; intros. rewrite Z.mod_small; lia. Qed.

Lemma b2z_range b : 0 <= b2z b <= 1.
Proof. destruct b; simpl; lia. Qed.
