(* C07 -- continuous-mode gap fill semantics: the fill-value table (finite domain, complete) and
   the structure of the un-chunked continuous layout for ALL histories of that mode (the C library
   accepts only single-block calls there; the extension splits block writes into such calls). *)
From Coq Require Import ZArith List Bool.
From DRF Require Import Model.FillValue Proofs.FillProofs Model.WriterCore Proofs.WriterInv Proofs.WriterInvU.
Import ListNotations.
Local Open Scope Z_scope.

(* For every element type (signed/unsigned 1,2,4,8 bytes; float 4,8), byte order and real/complex
   layout, the bytes handed to HDF5 decode -- in the file's byte order, in both components -- to the
   documented missing value: NaN, most negative, zero. *)
Theorem C07_fill_decodes_to_missing : forall k sz be cx,
  In (k, sz) [(KI, 1); (KI, 2); (KI, 4); (KI, 8); (KU, 1); (KU, 2); (KU, 4); (KU, 8); (KF, 4); (KF, 8)] ->
  cell_ok (mkCell k sz be cx) = true.
Proof. intros k sz be cx H. exact (fill_decodes_to_missing _ (all_cells_complete k sz be cx H)). Qed.
Print Assumptions C07_fill_decodes_to_missing.

(* regression witness: handing the native NaN to a big-endian float type (the code before commit
   6787ec7) does not decode to NaN *)
Theorem C07_native_nan_variant_refuted :
  exists c, In c all_cells /\
    forallb (fun comp => is_missing c (raw_value c comp)) (components c (component_image_native_nan c)) = false.
Proof. exact native_nan_refuted. Qed.
Print Assumptions C07_native_nan_variant_refuted.

(* Continuous mode without compression/checksum, any history of calls (any lengths, gaps inside a
   file, at the head of the first file, at the tail of the last, spanning whole files; rejected
   calls interleaved).  Against the Spec map s of the samples actually written:
   - every written sample is stored at its index with its value (ru_written);
   - every other exposed slot holds the fill value, and only slots of existing files are exposed
     (ru_only);
   - every existing file holds at least one written sample -- a file is created only if one of its
     slots was written (ru_files);
   - the cursor is the Spec cursor (ru_cur). *)
Theorem C07_unchunked_refines : forall c ops, vcfg c -> c_chunk c = false -> c_cont c = true ->
  Forall (fun op => 0 <= fst op) ops ->
  refines_u c (fold_left (model_step c) ops init_state) (fold_left (spec_step c) ops spec_init).
Proof. exact writer_refines_unchunked. Qed.
Print Assumptions C07_unchunked_refines.

(* every file that exists exposes every slot of its time window as a single block *)
Theorem C07_one_full_block_per_file : forall c ops, vcfg c -> c_chunk c = false -> c_cont c = true ->
  Forall (fun op => 0 <= fst op) ops ->
  Forall (fun a => f_index a = [(wlo c (f_ms a), 0)] /\ zlen (f_data a) = whi c (f_ms a) - wlo c (f_ms a))
         (all_files (fold_left (model_step c) ops init_state)).
Proof. exact unchunked_files_full_block. Qed.
Print Assumptions C07_one_full_block_per_file.

(* with compression or checksums (chunked), continuous mode runs the very same model code as gapped
   mode: c_cont is consulted only for the multi-block rejection and for the un-chunked row rebasing,
   so the files are those of Properties/C01.v / C06.v; non-vacuity of the hypotheses above: *)
Theorem C07_example :
  let c := mkCfg 150000000003 100 1 1 100 true false in
  let ops := [(0, [1; 2]); (4, [3]); (30, [4; 5])] in
  let st := fold_left (model_step c) ops init_state in
  vcfg c /\ w_gi st = 32 /\ length (all_files st) = 2%nat /\
  lookup_st st 150000000000 = Some Fill /\ lookup_st st 150000000004 = Some 2 /\
  lookup_st st 150000000005 = Some Fill /\ lookup_st st 150000000007 = Some 3 /\
  lookup_st st 150000000015 = None /\ lookup_st st 150000000033 = Some 4.
Proof. exact unchunked_example. Qed.
Print Assumptions C07_example.

(* with compression or checksums (needs_chunking) continuous mode stores gaps exactly as gapped mode
   does: every single-block call -- the only kind continuous mode accepts -- has the same return code
   and yields the same state (files, index rows, data, cursor) whichever way the continuous flag is set *)
From DRF Require Import Proofs.WriterMono.

Theorem C07_chunked_continuous_equals_gapped : forall c st g vec, c_chunk c = true ->
  write_one (flip_cont c) st g vec = write_one c st g vec.
Proof. exact chunked_continuous_equals_gapped. Qed.
Print Assumptions C07_chunked_continuous_equals_gapped.

(* ---- from the requested numpy type to the stored fill.  Gen/DtypeTable.v is the extension's
   get_hdf5_data_type, regenerated from the source on every run (translator T4); Model/Dtype.v says
   what the Python front end passes for a numpy type and what HDF5's predefined types mean.  For every
   numpy component type the writer accepts, real or complex: the table picks an HDF5 type of the same
   class, signedness, size and (beyond one byte) byte order, and the fill HDF5 stores for that type
   decodes to the missing value -- NaN, most negative, zero -- of the REQUESTED type. *)
From Coq Require Import String.
From DRF Require Import Model.Dtype Gen.DtypeTable Proofs.DtypeProofs.

Theorem C07_requested_type_fill_is_missing : forall k sz be cx,
  In (k, sz) [(KI, 1); (KI, 2); (KI, 4); (KI, 8); (KU, 1); (KU, 2); (KU, 4); (KU, 8); (KF, 4); (KF, 8)] ->
  exists name k' sz' be',
    get_hdf5_data_type (byteorder_char (mkNp k sz be)) (kind_char (mkNp k sz be)) sz = Some name /\
    h5_predef name = Some (k', sz', be') /\ k' = k /\ sz' = sz /\ (sz = 1 \/ be' = be) /\
    cell_ok (mkCell k' sz' be' cx) = true.
Proof. exact requested_type_fill_is_missing. Qed.
Print Assumptions C07_requested_type_fill_is_missing.

(* ---- the fill table itself, regenerated.  Gen/FillTable.v is digital_rf_set_fill_value executed
   (its clang AST, by translator T5) once for each of the forty cells with the HDF5 type queries
   answering for the cell: return value and the H5Pset_fill_value call made.  Every cell returns 0 and
   makes exactly one call, under the complex type id iff the channel is complex, with as many bytes as
   the type has, and those bytes decode to the missing value in both components. *)
From DRF Require Import Gen.FillTable Proofs.FillTableProofs Proofs.FillChain.

Theorem C07_regenerated_fill_decodes_to_missing : forall k sz be cx,
  In (k, sz) [(KI, 1); (KI, 2); (KI, 4); (KI, 8); (KU, 1); (KU, 2); (KU, 4); (KU, 8); (KF, 4); (KF, 8)] ->
  exists img, table_lookup (mkCell k sz be cx) = Some (0, [(cx, img)]) /\
              Z.of_nat (List.length img) = (if cx then 2 * sz else sz) /\
              forallb (fun comp => is_missing (mkCell k sz be cx) (raw_value (mkCell k sz be cx) comp))
                      (components (mkCell k sz be cx) img) = true.
Proof. exact regenerated_fill_decodes_to_missing. Qed.
Print Assumptions C07_regenerated_fill_decodes_to_missing.

Theorem C07_regenerated_table_domain : map fst fill_table = all_cells.
Proof. exact regenerated_table_domain. Qed.
Print Assumptions C07_regenerated_table_domain.

(* both regenerated tables chained: requested numpy type -> stored HDF5 type -> stored fill bytes *)
Theorem C07_requested_type_to_stored_fill : forall k sz be cx,
  In (k, sz) [(KI, 1); (KI, 2); (KI, 4); (KI, 8); (KU, 1); (KU, 2); (KU, 4); (KU, 8); (KF, 4); (KF, 8)] ->
  exists name k' sz' be' img,
    get_hdf5_data_type (byteorder_char (mkNp k sz be)) (kind_char (mkNp k sz be)) sz = Some name /\
    h5_predef name = Some (k', sz', be') /\ k' = k /\ sz' = sz /\ (sz = 1 \/ be' = be) /\
    table_lookup (mkCell k' sz' be' cx) = Some (0, [(cx, img)]) /\
    Z.of_nat (List.length img) = (if cx then 2 * sz' else sz') /\
    forallb (fun comp => is_missing (mkCell k' sz' be' cx) (raw_value (mkCell k' sz' be' cx) comp))
            (components (mkCell k' sz' be' cx) img) = true.
Proof. exact requested_type_to_stored_fill. Qed.
Print Assumptions C07_requested_type_to_stored_fill.

(* ---- after ANY history of public API calls in continuous mode without compression or checksums
   (rf_write and rf_write_blocks in any mix; the extension splits block calls), every file is a single
   block exposing every slot of its window; the refinement of the Spec (written = stored, everything
   else exposed = fill, a file only if a slot was written) is C01_api_history_continuous_unchunked *)
From DRF Require Import Model.PyWriter Proofs.PyApiHistory.

Theorem C07_api_files_full_block : forall c ops, vcfg c -> c_chunk c = false -> c_cont c = true ->
  Forall api_arg_ok ops ->
  Forall (fun a => f_index a = [(wlo c (f_ms a), 0)] /\ zlen (f_data a) = whi c (f_ms a) - wlo c (f_ms a))
         (all_files (p_w (fold_left (api_state c) ops py_init))).
Proof. exact api_files_full_block. Qed.
Print Assumptions C07_api_files_full_block.

(* ---- T17: the sources this property rests on keep no state outside the objects the model has (no static locals
   or mutable globals in C, no class-level / module-level containers, `global` rebinding or cache decorators in
   Python): the list of such sites, regenerated from the sources on every run, is empty *)
From Coq Require Import String List.
From DRF Require Import Gen.StateSites Proofs.StateSitesProofs.
Theorem C07_no_state_outside_the_modelled_objects : state_sites_c_library = @nil string /\ state_sites_extension = @nil string /\ state_sites_rf_python = @nil string.
Proof. repeat split; first [exact no_state_outside_objects_c_library | exact no_state_outside_objects_extension | exact no_state_outside_objects_rf_python]. Qed.
Print Assumptions C07_no_state_outside_the_modelled_objects.
