(* C07 -- continuous-mode gap fill semantics: the fill-value table (finite domain, complete). *)
From Coq Require Import ZArith List Bool.
From DRF Require Import Model.FillValue Proofs.FillProofs.
Import ListNotations.
Local Open Scope Z_scope.

(* For every element type (signed/unsigned 1,2,4,8 bytes; float 4,8), byte order and real/complex
   layout, the bytes handed to HDF5 decode -- in the file's byte order, in both components -- to the
   documented missing value: NaN, most negative, zero. *)
Theorem C07_fill_decodes_to_missing : forall k sz be cx,
  In (k, sz) [(KI, 1); (KI, 2); (KI, 4); (KI, 8); (KU, 1); (KU, 2); (KU, 4); (KU, 8); (KF, 4); (KF, 8)] ->
  cell_ok (mkCell k sz be cx) = true.
Proof. intros k sz be cx H. exact (fill_decodes_to_missing _ (all_cells_complete k sz be cx H)). Qed.
Print Assumptions C07_fill_decodes_to_missing.

(* regression witness: handing the native NaN to a big-endian float type (the code before commit
   6787ec7) does not decode to NaN *)
Theorem C07_native_nan_variant_refuted :
  exists c, In c all_cells /\
    forallb (fun comp => is_missing c (raw_value c comp)) (components c (component_image_native_nan c)) = false.
Proof. exact native_nan_refuted. Qed.
Print Assumptions C07_native_nan_variant_refuted.
