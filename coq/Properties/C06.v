(* C06 -- Self-describing data files.  Index invariants of every file in every reachable state. *)
From Coq Require Import ZArith List Bool.
From DRF Require Import Model.WriterCore Proofs.WriterInv.
Import ListNotations.
Local Open Scope Z_scope.

(* C06_file c a: the block index of a has at least one row, its first offset is 0 and its first sample
   is not before the file's window; consecutive rows have strictly increasing samples and offsets and
   never overlap (offset step <= sample step); every offset is inside the stored data; the last block
   ends inside the window; and the file holds no more samples than its window has slots.
   Proved for every file (finalized or open) after ANY history of single-block calls -- accepted or
   rejected, any lengths, any gaps, any number of files per call -- in chunked mode. *)
Theorem C06_index_invariants_single_chunked_partial : forall c ops, vcfg c -> c_chunk c = true ->
  Forall (fun op => 0 <= fst op) ops ->
  Forall (C06_file c) (all_files (fold_left (model_step c) ops init_state)).
Proof. exact reachable_files_C06. Qed.
Print Assumptions C06_index_invariants_single_chunked_partial.

(* the hypotheses are satisfiable and the model really produces several files with several rows *)
Theorem C06_example : 
  let c := mkCfg 150000000000 100 1 1 100 false true in
  let ops := [(3, [1; 2; 3; 4; 5; 6; 7; 8; 9; 10; 11; 12]); (2, [99]); (20, [13; 14])] in
  let st := fold_left (model_step c) ops init_state in
  vcfg c /\ w_gi st = 22 /\ length (all_files st) = 3%nat /\
  lookup_st st 150000000014 = Some 12 /\ lookup_st st 150000000015 = None /\ lookup_st st 150000000021 = Some 14.
Proof. exact refinement_example. Qed.
Print Assumptions C06_example.

(* the same for histories of block calls with any number of blocks per call (rf_write_blocks),
   chunked layouts: together with Properties/C07.v (un-chunked layout: one full block per file) this
   covers every layout the writer produces *)
From DRF Require Import Proofs.WriterMultiIdx Proofs.WriterMulti.

Theorem C06_index_invariants_blocks_chunked : forall c ops, vcfg c -> c_chunk c = true ->
  Forall (fun op => first_nonneg (fst op)) ops ->
  Forall (C06_file c) (all_files (fold_left (model_step_blocks c) ops init_state)).
Proof. exact reachable_files_C06_blocks. Qed.
Print Assumptions C06_index_invariants_blocks_chunked.

(* the file sequence number: along the files of a session in creation order (which Properties/C01.v
   shows to be increasing file-time order: the ms_incr component of `refines`) the sequence numbers are
   strictly increasing and never exceed the writer's counter -- every mode, every block layout, every
   history of calls (accepted, rejected or refused) *)
From DRF Require Import Proofs.WriterMono.

Theorem C06_sequence_numbers_increase : forall c ops,
  SeqInv (fold_left (fun st op => snd (write_blocks c st (fst op) (snd op))) ops init_state).
Proof. exact sequence_numbers_history. Qed.
Print Assumptions C06_sequence_numbers_increase.

(* ---- embedded attributes.  Gen/AttrTables.v is regenerated on every run from the attribute-writing
   code of the current source (digital_rf_write_metadata, both branches of digital_rf_handle_metadata,
   recreate_properties_file); Model/Attrs.v gives the tables their meaning.  The statements hold for
   every writer object e (every rate, cadence, element type, flag, session). *)
From Coq Require Import String.
From DRF Require Import Model.Attrs Gen.AttrTables Proofs.AttrsProofs.

(* every attribute of drf_properties.h5 is repeated in every data file: same name, type and value *)
Theorem C06_file_attributes_repeat_channel_properties : forall e n v,
  lookup n (write_table e prop_table) = Some v -> lookup n (write_table e file_table) = Some v.
Proof. exact file_attrs_repeat_properties. Qed.
Print Assumptions C06_file_attributes_repeat_channel_properties.

(* and they are the channel parameters: the five element-type queries, both cadences, the rate
   fraction, the complex / subchannel / continuous flags, with the documented integer types *)
Theorem C06_file_shows_channel_parameters : forall e n v,
  lookup n (spec_numeric e) = Some v -> lookup n (write_table e file_table) = Some v.
Proof. exact file_shows_parameters. Qed.
Print Assumptions C06_file_shows_channel_parameters.

(* epoch, time description and format version are literals, the same in the properties file and in
   every data file whatever the writer object; the epoch is the Unix epoch *)
Theorem C06_constant_attributes : forall n, In n const_names ->
  exists s, forall e, lookup n (write_table e prop_table) = Some (VS s) /\
                      lookup n (write_table e file_table) = Some (VS s).
Proof. exact constants_present. Qed.
Print Assumptions C06_constant_attributes.

Theorem C06_epoch : forall e,
  lookup "epoch"%string (write_table e prop_table) = Some (VS "1970-01-01T00:00:00Z"%string).
Proof. exact epoch_is_unix_epoch. Qed.
Print Assumptions C06_epoch.

(* each file carries the session's uuid and start timestamp and the writer's file sequence number
   (whose strict increase is C06_sequence_numbers_increase) *)
Theorem C06_session_attributes : forall e,
  lookup "sequence_num"%string (write_table e file_table) = Some (VI TInt (fld e "present_seq"%string)) /\
  lookup "uuid_str"%string (write_table e file_table) = Some (VS (sfld e "uuid_str"%string)) /\
  lookup "init_utc_timestamp"%string (write_table e file_table)
    = Some (VI TULLong (fld e "init_utc_timestamp"%string)) /\
  lookup "computer_time"%string (write_table e file_table) = Some (VI TULLong (clock e)).
Proof. exact file_session_attributes. Qed.
Print Assumptions C06_session_attributes.

(* a lost drf_properties.h5 regenerated from ANY data file is identical to the original *)
Theorem C06_regenerated_properties_identical : forall e,
  exists r, regenerate regen_table (write_table e file_table) = Some r /\
            forall n, lookup n r = lookup n (write_table e prop_table).
Proof. exact regenerated_properties_identical. Qed.
Print Assumptions C06_regenerated_properties_identical.

Theorem C06_attribute_names_unique :
  nodupb (names file_table) = true /\ nodupb (names prop_table) = true /\
  nodupb (map c_name compare_table) = true /\ nodupb (map fst regen_table) = true.
Proof. exact attribute_names_unique. Qed.
Print Assumptions C06_attribute_names_unique.

(* ---- the index invariants after ANY history of public API calls (rf_write / rf_write_blocks in any
   mix, accepted or refused), chunked layouts: gapped mode, and continuous mode with compression or
   checksums.  (The un-chunked continuous layout is C07_api_files_full_block.) *)
From DRF Require Import Model.PyWriter Proofs.PyApiHistory.

Theorem C06_api_files_gapped : forall c ops, vcfg c -> c_chunk c = true -> c_cont c = false ->
  Forall api_arg_ok ops ->
  Forall (C06_file c) (all_files (p_w (fold_left (api_state c) ops py_init))).
Proof. exact api_files_C06_gapped. Qed.
Print Assumptions C06_api_files_gapped.

Theorem C06_api_files_continuous_chunked : forall c ops, vcfg c -> c_chunk c = true -> c_cont c = true ->
  Forall api_arg_ok ops ->
  Forall (C06_file c) (all_files (p_w (fold_left (api_state c) ops py_init))).
Proof. exact api_files_C06_continuous_chunked. Qed.
Print Assumptions C06_api_files_continuous_chunked.

(* the sequence numbers after ANY history of public API calls (every mode and layout, no hypothesis on
   the arguments): strictly increasing along the files in creation order (= file-time order by the
   refinement theorems), never above the writer's counter *)
Theorem C06_api_sequence_numbers : forall c ops, SeqInv (p_w (fold_left (api_state c) ops py_init)).
Proof. exact api_sequence_numbers. Qed.
Print Assumptions C06_api_sequence_numbers.

(* ---- T17: the sources this property rests on keep no state outside the objects the model has (no static locals
   or mutable globals in C, no class-level / module-level containers, `global` rebinding or cache decorators in
   Python): the list of such sites, regenerated from the sources on every run, is empty *)
From Coq Require Import String List.
From DRF Require Import Gen.StateSites Proofs.StateSitesProofs.
Theorem C06_no_state_outside_the_modelled_objects : state_sites_c_library = @nil string /\ state_sites_extension = @nil string /\ state_sites_rf_python = @nil string.
Proof. repeat split; first [exact no_state_outside_objects_c_library | exact no_state_outside_objects_extension | exact no_state_outside_objects_rf_python]. Qed.
Print Assumptions C06_no_state_outside_the_modelled_objects.
