(* C06 -- placeholder until Proofs/WriterProofs.v is in place (initial-state instance only). *)
From Coq Require Import ZArith List.
From DRF Require Import Model.WriterCore.
Local Open Scope Z_scope.

Theorem C06_initial_partial : w_files init_state = nil.
Proof. exact eq_refl. Qed.
Print Assumptions C06_initial_partial.
