(* C09 -- Concurrent reader isolation and monotone visibility.
   Property theorems only.  Same setting as Properties/C02.v: a reader running concurrently with
   the writer observes, at each of its file-system probes, the state after some prefix of the
   writer's trace; a schedule assigns a prefix length to every probe.  The statements hold for
   every trace accepted by the publication protocol (checked on the real writer's trace by
   ./check C09, which also single-steps the real writer and runs reader passes on the live tree
   between any two operations), for ALL schedules.
   Not modelled: interleavings inside one h5py.File() call; atomicity of rename(2). *)
From Coq Require Import ZArith List Bool.
From DRF Require Import Base.Fs Model.WriterProto Proofs.ProtoSafety Proofs.WriterProtoProofs Proofs.ProtoReader.
From DRF Require Import Proofs.WriterFaultProofs Proofs.WriterProtoRestart.
Import ListNotations.
Local Open Scope Z_scope.

(* the set of finalized files only grows and their contents are fixed *)
Theorem C09_fs_monotone : forall pv t i j d k c,
  accepted pv t -> (i <= j)%nat ->
  crash_state t i empty_fs (PData d false k) = Some (File c) ->
  crash_state t j empty_fs (PData d false k) = Some (File c).
Proof. exact fs_monotone. Qed.
Print Assumptions C09_fs_monotone.

(* under any schedule of probes a query never fails and returns, per candidate, exactly the image
   finalized at the time of its probe *)
Theorem C09_reader_sees_only_written : forall pv t sched,
  accepted pv t ->
  exists l, read_sched t sched = Some l /\
    forall k tg, In (k, tg) l <->
      exists tau d, In (tau, (d, k)) sched /\
                    crash_state t tau empty_fs (PData d false k) = Some (File (Complete tg)).
Proof. exact reader_sees_only_written. Qed.
Print Assumptions C09_reader_sees_only_written.

(* ... which is the image that file holds at the end of the recording: never a value not written *)
Theorem C09_reader_value_is_final : forall pv t tau d k tg,
  accepted pv t -> crash_state t tau empty_fs (PData d false k) = Some (File (Complete tg)) ->
  state_after t empty_fs (PData d false k) = Some (File (Complete tg)).
Proof. exact reader_value_final. Qed.
Print Assumptions C09_reader_value_is_final.

(* everything finalized when the query starts is returned *)
Theorem C09_reader_sees_all_finalized : forall pv t sched tau0 l tau d k tg,
  accepted pv t -> read_sched t sched = Some l ->
  In (tau, (d, k)) sched -> (tau0 <= tau)%nat ->
  crash_state t tau0 empty_fs (PData d false k) = Some (File (Complete tg)) -> In (k, tg) l.
Proof. exact reader_sees_all_finalized. Qed.
Print Assumptions C09_reader_sees_all_finalized.

(* a query repeated later returns a superset with equal values *)
Theorem C09_visibility_grows : forall pv t i j cands l1 l2,
  accepted pv t -> (i <= j)%nat ->
  read_pass (crash_state t i empty_fs) cands = Some l1 ->
  read_pass (crash_state t j empty_fs) cands = Some l2 -> incl l1 l2.
Proof. exact visibility_grows. Qed.
Print Assumptions C09_visibility_grows.

(* once the writer is closed the reader sees everything *)
Theorem C09_after_close_sees_all : forall v rc cands d k tg,
  forallb (fun b => b) (rs_out (wrun no_fault v rc)) = true ->
  last_tag (all_parts rc) d k = Some tg -> In (d, k) cands ->
  exists l, read_pass (state_after (trace_of v rc) empty_fs) cands = Some l /\ In (k, tg) l.
Proof. exact after_close_sees_all. Qed.
Print Assumptions C09_after_close_sees_all.

(* the writer model's trace is accepted, so all of the above applies to every recording *)
Theorem C09_writer_obeys_protocol : forall v rc, accepted (v_props v) (trace_of v rc).
Proof. exact (fun v rc => ex_intro _ _ (writer_obeys v rc)). Qed.
Print Assumptions C09_writer_obeys_protocol.

(* a reader can be constructed at any moment the channel exists (staged properties file) ... *)
Theorem C09_reader_constructs : opens_full Staged.
Proof. exact opens_staged. Qed.
Print Assumptions C09_reader_constructs.

(* ... which fails for in-place creation (the code before 2c89f97) *)
Theorem C09_reader_constructs_refuted : ~ opens_full Direct.
Proof. exact opens_direct_refuted. Qed.
Print Assumptions C09_reader_constructs_refuted.

(* a killed recorder is restarted into the file period of its leftover tmp file (Properties/C02.v,
   C02_restart_over_stale_tmp): a reader pass after that session returns exactly what it returned on the
   tree the kill left -- the leftover, never completed file does not become visible *)
Theorem C09_restart_reader_unaffected : forall F v rc s fp rest cs c cands,
  r_calls rc = (fp :: rest) :: cs ->
  open_channel s = true ->
  s (PData (fp_d fp) true (fp_k fp)) = Some (File c) ->
  s (PData (fp_d fp) false (fp_k fp)) = None ->
  read_pass (w_fs (rs_w (wrun_on s F v rc))) cands = read_pass s cands.
Proof. exact restart_reader_unaffected. Qed.
Print Assumptions C09_restart_reader_unaffected.

(* ---- T17: the sources this property rests on keep no state outside the objects the model has (no static locals
   or mutable globals in C, no class-level / module-level containers, `global` rebinding or cache decorators in
   Python): the list of such sites, regenerated from the sources on every run, is empty *)
From Coq Require Import String List.
From DRF Require Import Gen.StateSites Proofs.StateSitesProofs.
Theorem C09_no_state_outside_the_modelled_objects : state_sites_c_library = @nil string /\ state_sites_extension = @nil string /\ state_sites_rf_python = @nil string /\ state_sites_listing = @nil string.
Proof. repeat split; first [exact no_state_outside_objects_c_library | exact no_state_outside_objects_extension | exact no_state_outside_objects_rf_python | exact no_state_outside_objects_listing]. Qed.
Print Assumptions C09_no_state_outside_the_modelled_objects.
