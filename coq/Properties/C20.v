(* C20 -- Live metadata visibility and non-destructive reading.
   Model/MdLive.v: interleavings, at call granularity, of DigitalMetadataWriter.write calls with
   DigitalMetadataReader construction and get_bounds / read / read_latest queries over one channel
   directory.  A reader object keeps only the static channel parameters of dmd_properties.h5;
   every query recomputes bounds and file lists from the directory.  The reader's only mutating
   branch (_add_metadata: os.remove of a file that raises IOError on opening, is accessible and
   older than the cadence) is in the model (add_metadata_fs / f_bad).
     exec (init c) ops : run the interleaved history ops on the directory created by the writer
     writes_of pre     : the write calls of a prefix;   readers_in pre : readers created in it
     pure_obs c h m o  : the observation of o computed by the C12 model on run_writes Exact c h
   RF reads and listings are not modelled: harness/props/c20.py hashes the whole tree (names,
   sizes, contents) around every read-only call of DigitalMetadataReader, DigitalRFReader and lsdrf. *)
From Coq Require Import ZArith List.
From DRF Require Import Model.MdPlace Model.MdStore Model.MdLive Proofs.MdPlaceProofs Proofs.MdStoreProofs
  Proofs.MdLiveProofs.
Import ListNotations.
Local Open Scope Z_scope.

(* whatever was interleaved before, and whichever reader is asked (created at any earlier point),
   a call observes exactly the write calls that have returned *)
Theorem C20_visible_on_return : forall c pre o rest,
  nth_error (snd (exec (init c) (pre ++ o :: rest))) (length pre) =
  Some (pure_obs c (writes_of pre) (readers_in pre) o).
Proof. exact visible_on_return. Qed.
Print Assumptions C20_visible_on_return.

(* the bounds include every sample written so far *)
Theorem C20_visible_bounds : forall c pre r rest, cfg_ok c -> hist_ok (writes_of pre) ->
  (r < readers_in pre)%nat -> spec_of (writes_of pre) <> [] ->
  exists lo hi,
    nth_error (snd (exec (init c) (pre ++ OBounds r :: rest))) (length pre) = Some (ObsBounds (Some (lo, hi))) /\
    forall k v, In (k, v) (spec_of (writes_of pre)) -> lo <= k <= hi.
Proof. exact visible_bounds. Qed.
Print Assumptions C20_visible_bounds.

(* range reads return it *)
Theorem C20_visible_read : forall c pre r rest k v s0 s1, cfg_ok c -> hist_ok (writes_of pre) ->
  (r < readers_in pre)%nat -> In (k, v) (spec_of (writes_of pre)) -> s0 <= k <= s1 ->
  exists res,
    nth_error (snd (exec (init c) (pre ++ ORead r s0 s1 false :: rest))) (length pre) = Some (ObsRead (ROk res)) /\
    In (k, v) res.
Proof. exact visible_read. Qed.
Print Assumptions C20_visible_read.

(* reading the latest metadata returns the sample with the highest index *)
Theorem C20_latest_is_max : forall c pre r rest, cfg_ok c -> hist_ok (writes_of pre) ->
  (r < readers_in pre)%nat -> spec_of (writes_of pre) <> [] ->
  exists z,
    nth_error (snd (exec (init c) (pre ++ OLatest r :: rest))) (length pre) = Some (ObsRead (ROk [z])) /\
    In z (spec_of (writes_of pre)) /\ forall y, In y (spec_of (writes_of pre)) -> fst y <= fst z.
Proof. exact latest_is_max. Qed.
Print Assumptions C20_latest_is_max.

(* a read-only call leaves a valid tree (no unopenable files) exactly as it was: the deleting
   branch is unreachable *)
Theorem C20_reads_do_not_mutate : forall fs rs o, valid_tree fs -> read_only o ->
  fst (fst (step (fs, rs) o)) = fs.
Proof. exact reads_do_not_mutate. Qed.
Print Assumptions C20_reads_do_not_mutate.

(* every tree reachable by interleaving writes and reads is valid, holds exactly the accepted
   writes, and every reader ever created holds the channel parameters *)
Theorem C20_reachable_valid : forall c ops,
  let s := fst (exec (init c) ops) in
  valid_tree (fst s) /\ f_ents (fst s) = run_writes Exact c (writes_of ops) /\ f_props (fst s) = c /\
  snd s = repeat c (readers_in ops).
Proof. exact reachable_valid. Qed.
Print Assumptions C20_reachable_valid.

(* hence no read-only call of any interleaved history changes the tree *)
Theorem C20_history_reads_do_not_mutate : forall c pre o, read_only o ->
  fst (fst (step (fst (exec (init c) pre)) o)) = fst (fst (exec (init c) pre)).
Proof. exact history_reads_do_not_mutate. Qed.
Print Assumptions C20_history_reads_do_not_mutate.

(* ---- T17: the sources this property rests on keep no state outside the objects the model has (no static locals
   or mutable globals in C, no class-level / module-level containers, `global` rebinding or cache decorators in
   Python): the list of such sites, regenerated from the sources on every run, is empty *)
From Coq Require Import String List.
From DRF Require Import Gen.StateSites Proofs.StateSitesProofs.
Theorem C20_no_state_outside_the_modelled_objects : state_sites_metadata = @nil string /\ state_sites_listing = @nil string /\ state_sites_rf_python = @nil string.
Proof. repeat split; first [exact no_state_outside_objects_metadata | exact no_state_outside_objects_listing | exact no_state_outside_objects_rf_python]. Qed.
Print Assumptions C20_no_state_outside_the_modelled_objects.
