(* C17 -- Mirror fidelity, staged publication and no loss in move mode.   (proof over a protocol model; partial)
   Property theorems only; each is closed by `exact` of a lemma of Proofs/MirrorProofs.v.
   Model/Mirror.v: mirror_to_dest as a sequence of atomic file-system operations (a copy is two
   operations: the name exists before the content is complete; link, rename and same-file-system move
   are atomic; cross-file-system move is copy + unlink), the handler set DigitalRFMirror builds for
   copy / move / link, and the count=1 ring buffer (Model/Ringbuffer.v) on the source metadata.
   `mtrace mc evs` lists the state after EVERY file-system operation of a history of recorder writes
   and delivered events; `mrun mc evs` is the last one.
   Assumed at run time (not proved): shutil.copy2 / os.link / os.rename semantics as modelled,
   filecmp.cmp = content equality, watchdog delivery, one event handled at a time. *)
From Coq Require Import ZArith List Bool.
From DRF Require Import Model.Ringbuffer Proofs.RingbufferProofs Model.Mirror Proofs.MirrorProofs.
Import ListNotations.
Local Open Scope Z_scope.

(* staged publication: in no state of any trace does a final destination name hold an incomplete file *)
Theorem C17_staged_publication : forall mc evs t, In t (mtrace mc evs) ->
  forall p d, dget (Fin p) (dst t) = Some d -> dok d = true.
Proof. exact staged_publication. Qed.
Print Assumptions C17_staged_publication.

(* fidelity (guarded): an event for p handled while the source holds p's final content c puts c under
   p's final destination name (all three methods, every SELECTED kind: include_drf / include_dmd), and duplicated, late or stale
   events and events for other files -- anything that does not rewrite p -- leave it there *)
Theorem C17_mirrored_equal_partial : forall mc pre p c (created : bool) post,
  rget p (src (mrun mc pre)) = Some c -> selected mc p = true -> Forall (no_rewrite p c) post ->
  exists l, dget (Fin p) (dst (mrun mc (pre ++ (if created then ECreated p else EModified p) :: post)))
            = Some (mkD c true l).
Proof. exact finalized_mirrored. Qed.
Print Assumptions C17_mirrored_equal_partial.

(* ... and nothing of a deselected kind is ever mirrored: in no state of any trace does a file that
   is not selected exist under the destination, neither under its final nor under its tmp. name *)
Theorem C17_deselected_never_mirrored : forall mc p, selected mc p = false ->
  forall evs t, In t (mtrace mc evs) -> dget (Fin p) (dst t) = None /\ dget (Tmp p) (dst t) = None.
Proof. exact deselected_never_mirrored. Qed.
Print Assumptions C17_deselected_never_mirrored.

(* the unguarded statement ("after the events for a finalized file have been processed the destination
   has its final content") is false in move mode when events are reordered: the count=1 ring buffer
   deletes the older metadata file from the source before its last modification was mirrored *)
Theorem C17_mirrored_equal_refuted : ~ finalized_full.
Proof. exact finalized_refuted. Qed.
Print Assumptions C17_mirrored_equal_refuted.

(* idempotence: handling the same file again (duplicate event, or an event for a file that has vanished)
   plans no file-system operation (at most the link method remembers a directory it cannot link from) *)
Theorem C17_idempotent_under_duplicates_and_stale_events : forall mc m m' s p, MInvR s ->
  forall f, In f (mirror_plan mc m' (exec s (mirror_plan mc m s p)) p) -> exists q, f = FNoLink q.
Proof. exact second_plan_empty. Qed.
Print Assumptions C17_idempotent_under_duplicates_and_stale_events.

(* once mirrored, stays mirrored: through every operation of every later history that does not rewrite p *)
Theorem C17_mirrored_stable : forall p c mc evs s, MInvR s -> Stable p c s -> Forall (no_rewrite p c) evs ->
  (forall t, In t (states s (run_fops mc s evs)) -> Stable p c t) /\ Stable p c (exec s (run_fops mc s evs)).
Proof. exact mirrored_stable. Qed.
Print Assumptions C17_mirrored_stable.

(* move mode (and the others): from the moment data file p is written, at EVERY point between two
   file-system operations an intact copy exists in the source, under the tmp. name or under the final name *)
Theorem C17_move_never_loses : forall mc pre p c post t, kind_rf p = true ->
  In t (states (mrun mc (pre ++ [EWrite p c])) (run_fops mc (mrun mc (pre ++ [EWrite p c])) post)) ->
  Forall (untouched p) post -> Holds p c t.
Proof. exact move_never_loses. Qed.
Print Assumptions C17_move_never_loses.

(* move mode: properties and metadata files are copied, and a properties file stays in the source *)
Theorem C17_props_and_metadata_copied : forall mc pre p c, m_meth mc = MMove ->
  kind_md p || kind_prop p = true -> selected mc p = true -> rget p (src (mrun mc pre)) = Some c ->
  Full (dget (Fin p) (dst (mrun mc (pre ++ [ECreated p])))) c /\
  (kind_prop p = true -> rget p (src (mrun mc (pre ++ [ECreated p]))) = Some c).
Proof. exact props_and_metadata_copied. Qed.
Print Assumptions C17_props_and_metadata_copied.

(* the newest metadata file stays: whatever the mirror's ring buffer deletes from the source, a tracked
   file of the same channel that is at least as new remains (uses the C16 theorems for count = 1) *)
Theorem C17_newest_metadata_stays : forall mc evs d, In d (dels (ring (mrun mc evs))) ->
  exists x, In x (keys (recs (d_pre d))) /\ x <> d_path d /\ pg x = pg (d_path d) /\ pk (d_path d) <= pk x.
Proof. exact newest_metadata_stays. Qed.
Print Assumptions C17_newest_metadata_stays.

(* ---- T15: the model's handler list IS the list DigitalRFMirror.__init__ builds (regenerated from
   mirror.py on every run): same order, same kind of handler, same set of files each reacts to *)
From DRF Require Import Model.MirrorInitBase Gen.MirrorInitGen Proofs.MirrorInitGenProofs.
Theorem C17_handlers_are_the_regenerated_list : forall mc p,
  map (fun hf : hnd * (path -> bool) => (Some (fst hf), snd hf p)) (handlers mc)
  = map (fun gf : gfun * gflags => (g_hnd mc (fst gf), g_match (snd gf) p))
        (gen_event_handlers (is_move mc) (m_drf mc) (m_dmd mc)).
Proof. exact mirror_handlers_regen. Qed.
Print Assumptions C17_handlers_are_the_regenerated_list.

(* ---- T19: which events reach the mirror's handlers at all is decided by DigitalRFEventHandler.dispatch, which they
   inherit: its body (path classification, move rewriting, the time of a file name INCLUDING its millisecond part,
   the window comparisons), regenerated from watchdog_drf.py on every run, equals the model of Model/Events.v *)
From DRF Require Import Base.Regex Model.PathSpec Model.Events Gen.DispatchGen Proofs.DispatchGenProofs.
Theorem C17_event_filter_is_the_regenerated_code : forall rs st en mt ev,
  gen_dispatch_rs rs st en mt ev = dispatch_rs rs st en mt ev.
Proof. exact dispatch_rs_regen. Qed.
Print Assumptions C17_event_filter_is_the_regenerated_code.

Theorem C17_event_time_counts_milliseconds : forall c s f,
  group Gen.Grammar.g_secs c = Some s -> group Gen.Grammar.g_frac c = Some f ->
  forall sv fv, int_of s = Some sv -> int_of f = Some fv ->
  gen_time_of c = Time (sv * 1000000 + fv * 1000)%Z.
Proof. intros c s f Hs Hf sv fv Hsv Hfv. unfold gen_time_of. rewrite Hs, Hsv, Hf, Hfv. reflexivity. Qed.
Print Assumptions C17_event_time_counts_milliseconds.

(* ---- T20: mirror_to_dest itself, regenerated statement by statement from mirror.py as a function from the outcomes of
   the primitives it calls (exists / makedirs / filecmp.cmp / mirror_fun / rename / isfile) to the file-system actions
   it attempts.  For EVERY outcome of the primitives: a rename to the final name directly follows a completed staging
   call under tmp.<name>; the file is published exactly when the directory is there or can be made, the destination is
   missing or differs, and staging and rename succeed; an equal destination is not touched; a failure is reported unless
   the source has vanished; the source directory clean-up is attempted last.  And the hand model's mirror_plan publishes
   exactly when this code does, under the model's reading of the primitives. *)
From DRF Require Import Model.MirrorDestBase Gen.MirrorDestGen Proofs.MirrorDestGenProofs.
Theorem C17_staged_publication_is_in_the_code : forall pr l1 ok l2,
  gen_mirror_to_dest pr = l1 ++ APublish ok :: l2 -> exists l0, l1 = l0 ++ [AStage true].
Proof. exact staged_publication. Qed.
Print Assumptions C17_staged_publication_is_in_the_code.

Theorem C17_published_exactly_when : forall pr,
  existsb is_publish_ok (gen_mirror_to_dest pr) =
  (p_dest_dir_exists pr || p_makedirs_ok pr) && needs_mirroring pr && p_stage_ok pr && p_rename_ok pr.
Proof. exact published_iff. Qed.
Print Assumptions C17_published_exactly_when.

Theorem C17_equal_destination_untouched : forall pr,
  p_dest_exists pr = true -> p_cmp pr = Some true ->
  existsb is_stage (gen_mirror_to_dest pr) = false /\ existsb is_publish (gen_mirror_to_dest pr) = false.
Proof. exact equal_destination_untouched. Qed.
Print Assumptions C17_equal_destination_untouched.

Theorem C17_failure_reported_unless_source_vanished : forall pr,
  snd (gen_try_body pr) = false -> existsb is_report (gen_mirror_to_dest pr) = p_src_isfile pr.
Proof. exact failure_reported_iff_source_still_there. Qed.
Print Assumptions C17_failure_reported_unless_source_vanished.

Theorem C17_model_plan_publishes_as_the_code : forall mc m s p dir_exists,
  existsb is_final_rename (mirror_plan mc m s p) =
  existsb is_publish_ok (gen_mirror_to_dest (prims_of s p dir_exists)).
Proof. exact mirror_plan_publishes_as_the_code. Qed.
Print Assumptions C17_model_plan_publishes_as_the_code.

From Coq Require Import String.
Theorem C17_staging_name_is_tmp_prefix : gen_tmp_prefix = "tmp."%string.
Proof. reflexivity. Qed.
Print Assumptions C17_staging_name_is_tmp_prefix.

(* ---- T17: the sources this property rests on keep no state outside the objects the model has (no static locals
   or mutable globals in C, no class-level / module-level containers, `global` rebinding or cache decorators in
   Python): the list of such sites, regenerated from the sources on every run, is empty *)
From Coq Require Import String List.
From DRF Require Import Gen.StateSites Proofs.StateSitesProofs.
Theorem C17_no_state_outside_the_modelled_objects : state_sites_events = @nil string /\ state_sites_listing = @nil string.
Proof. repeat split; first [exact no_state_outside_objects_events | exact no_state_outside_objects_listing]. Qed.
Print Assumptions C17_no_state_outside_the_modelled_objects.
