(* C17 -- placeholder while the proofs are being written *)
From DRF Require Import Model.Mirror.
