(* C11 -- placeholder until Proofs/WriterProofs.v is in place. *)
From Coq Require Import ZArith List.
From DRF Require Import Model.WriterCore.
Local Open Scope Z_scope.

Theorem C11_close_without_open_file_partial : forall st, w_openf st = None -> w_files (close_writer st) = w_files st.
Proof. intros st H. unfold close_writer, finalize; cbn. rewrite H. reflexivity. Qed.
Print Assumptions C11_close_without_open_file_partial.
