(* C11 -- placeholder until Proofs/WriterProofs.v is in place. *)
From Coq Require Import ZArith List.
From DRF Require Import Model.WriterCore.
Local Open Scope Z_scope.

Theorem C11_close_keeps_file_count_partial : forall st, w_failed st = false ->
  length (w_files (close_writer st)) = length (w_files st).
Proof.
  intros st H. unfold close_writer, finalize; cbn. destruct (w_cur st); [|reflexivity].
  rewrite H. unfold map_cur. apply map_length.
Qed.
Print Assumptions C11_close_keeps_file_count_partial.
