(* C11 -- Multi-session continuity without overwrite: the model-level safety core. *)
From Coq Require Import ZArith List Bool.
From DRF Require Import Model.WriterCore Proofs.WriterMono Proofs.WriterInv.
Import ListNotations.
Local Open Scope Z_scope.

(* For every recording -- write calls with arbitrary block arrays in any mode, closes, and restarts
   with any start index (later than, earlier than or inside recorded periods) -- the list of
   finalized files only ever grows at its end: no finalized file is replaced, altered or removed. *)
Theorem C11_finalized_never_touched : forall ops cs,
  exists t, w_files (snd (fold_left wstep ops cs)) = w_files (snd cs) ++ t.
Proof. exact finalized_never_touched. Qed.
Print Assumptions C11_finalized_never_touched.

Theorem C11_finalized_file_stable : forall ops cs i a,
  nth_error (w_files (snd cs)) i = Some a ->
  nth_error (w_files (snd (fold_left wstep ops cs))) i = Some a.
Proof. exact finalized_file_stable. Qed.
Print Assumptions C11_finalized_file_stable.

(* a write that would need a file whose final name exists is rejected; it creates nothing, leaves
   the cursor and the failure flag as they were (so the writer stays usable), and only finalizes the
   file that was open *)
Theorem C11_existing_final_refused : forall c st sw g vec,
  c_chunk c = true -> vcfg c ->
  let K := c_start c + (g + sw) in
  let F := Fk c K in
  0 <= sw < zlen vec -> ((sw =? 0) && (g <? w_gi st)) = false ->
  (match w_cur st with Some f => (f =? F) && w_open st | None => false end) = false ->
  has_final F (finalize st) = true ->
  exists st', write_samples_to_file c st sw [(g, 0)] vec = (Fail, st') /\
              w_files st' = finalize st /\ w_openf st' = None /\ w_failed st' = w_failed st /\ w_gi st' = w_gi st.
Proof. exact existing_final_refused. Qed.
Print Assumptions C11_existing_final_refused.
