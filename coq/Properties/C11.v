(* C11 -- Multi-session continuity without overwrite: the model-level safety core. *)
From Coq Require Import ZArith List Bool.
From DRF Require Import Model.WriterCore Proofs.WriterMono Proofs.WriterInv.
Import ListNotations.
Local Open Scope Z_scope.

(* For every recording -- write calls with arbitrary block arrays in any mode, closes, and restarts
   with any start index (later than, earlier than or inside recorded periods) -- the list of
   finalized files only ever grows at its end: no finalized file is replaced, altered or removed. *)
Theorem C11_finalized_never_touched : forall ops cs,
  exists t, w_files (snd (fold_left wstep ops cs)) = w_files (snd cs) ++ t.
Proof. exact finalized_never_touched. Qed.
Print Assumptions C11_finalized_never_touched.

Theorem C11_finalized_file_stable : forall ops cs i a,
  nth_error (w_files (snd cs)) i = Some a ->
  nth_error (w_files (snd (fold_left wstep ops cs))) i = Some a.
Proof. exact finalized_file_stable. Qed.
Print Assumptions C11_finalized_file_stable.

(* a write that would need a file whose final name exists is rejected; it creates nothing, leaves
   the cursor and the failure flag as they were (so the writer stays usable), and only finalizes the
   file that was open *)
Theorem C11_existing_final_refused : forall c st sw g vec,
  c_chunk c = true -> vcfg c ->
  let K := c_start c + (g + sw) in
  let F := Fk c K in
  0 <= sw < zlen vec -> ((sw =? 0) && (g <? w_gi st)) = false ->
  (match w_cur st with Some f => (f =? F) && w_open st | None => false end) = false ->
  has_final F (finalize st) = true ->
  exists st', write_samples_to_file c st sw [(g, 0)] vec = (Fail, st') /\
              w_files st' = finalize st /\ w_openf st' = None /\ w_failed st' = w_failed st /\ w_gi st' = w_gi st.
Proof. exact existing_final_refused. Qed.
Print Assumptions C11_existing_final_refused.

(* ---- the union of sessions.  A restart (close + new writer with start index s') that begins at or
   after the end of every file period holding a recorded sample keeps the refinement under the new
   start: across any history of block calls and such restarts the channel denotes exactly the union
   of all sessions' accepted samples at their absolute indices, with files in increasing time order
   (so the reader theorems of C08 / the round trip of C01 apply to the multi-session channel).
   Chunked layouts.  Sessions that start earlier than or inside recorded periods are covered by
   C11_finalized_never_touched and C11_existing_final_refused above, and by the correspondence. *)
From DRF Require Import Proofs.WriterMultiIdx Proofs.WriterMulti Proofs.WriterSessions.

Theorem C11_restart_keeps_refinement : forall c st s s', vcfg c -> 0 <= s' -> refines c st s ->
  (forall k v, s_map s k = Some v -> whi c (Fk c k) <= s') ->
  refines (with_start c s') (restart st) (mkSpec 0 (s_map s)).
Proof. exact restart_refines. Qed.
Print Assumptions C11_restart_keeps_refinement.

Theorem C11_union_of_forward_sessions : forall c ops, vcfg c -> c_chunk c = true ->
  ok_history (c, spec_init) ops ->
  let '(c', st') := fold_left sstep_model ops (c, init_state) in
  let '(c'', s') := fold_left sstep_spec ops (c, spec_init) in
  c'' = c' /\ refines c' st' s'.
Proof. exact sessions_refine_init. Qed.
Print Assumptions C11_union_of_forward_sessions.

(* ---- a new session on an existing channel is refused exactly when a stored channel parameter
   differs.  compare_table is regenerated on every run from the restart branch of
   digital_rf_handle_metadata in the current source, prop_table from its create branch
   (Gen/AttrTables.v); chan_params is the hand-written list of the twelve stored parameters (five
   element-type queries, both cadences, rate numerator and denominator, complex / subchannel /
   continuous flags).  e is the writer object that created the channel, e' the one being opened. *)
From DRF Require Import Model.Attrs Gen.AttrTables Proofs.AttrsProofs.

Theorem C11_restart_accepted_iff_same_parameters : forall e e',
  check_existing compare_table compare_final e' (write_table e prop_table) = 0 <->
  chan_params e = chan_params e'.
Proof. exact restart_accepted_iff_same_parameters. Qed.
Print Assumptions C11_restart_accepted_iff_same_parameters.

Theorem C11_restart_refused_on_any_difference : forall e e',
  chan_params e <> chan_params e' ->
  check_existing compare_table compare_final e' (write_table e prop_table) <> 0.
Proof. exact restart_refused_on_any_difference. Qed.
Print Assumptions C11_restart_refused_on_any_difference.

(* the statement is not vacuous: an equal writer object is accepted, one with another subchannel
   count or another mode is refused with -1 *)
Theorem C11_restart_examples :
  check_existing compare_table compare_final (ex_env 2 1) (write_table (ex_env 2 1) prop_table) = 0 /\
  check_existing compare_table compare_final (ex_env 3 1) (write_table (ex_env 2 1) prop_table) = -1 /\
  check_existing compare_table compare_final (ex_env 2 0) (write_table (ex_env 2 1) prop_table) = -1.
Proof. exact (conj restart_same_accepted (conj restart_other_subchannels_refused restart_other_mode_refused)). Qed.
Print Assumptions C11_restart_examples.

(* ---- "reads back as the union of all sessions' samples": the reader (model of C08) on the files of a
   channel recorded in any number of forward sessions returns the canonical block list of the union
   map -- correct indices, contiguous samples as one block also across a session boundary, nothing
   else.  (ok_history: block calls start at non-negative indices; each restart begins at or after the
   end of every file period that holds a recorded sample.) *)
From DRF Require Import Base.Runs Model.ReaderCore Proofs.RoundTrip Proofs.ApiRoundTrip.

Theorem C11_sessions_read_back_as_union : forall c ops s e,
  vcfg c -> 0 < c_sc c -> (c_sc c * 1000) mod c_fc c = 0 ->
  c_chunk c = true -> ok_history (c, spec_init) ops ->
  let '(c', st') := fold_left sstep_model ops (c, init_state) in
  let '(_, s') := fold_left sstep_spec ops (c, spec_init) in
  read ExactRational (rc_of c') (map (to_rfile c') (all_files st')) s e = runs (s_map s') s e.
Proof. exact sessions_roundtrip. Qed.
Print Assumptions C11_sessions_read_back_as_union.

(* ---- T17: the sources this property rests on keep no state outside the objects the model has (no static locals
   or mutable globals in C, no class-level / module-level containers, `global` rebinding or cache decorators in
   Python): the list of such sites, regenerated from the sources on every run, is empty *)
From Coq Require Import String List.
From DRF Require Import Gen.StateSites Proofs.StateSitesProofs.
Theorem C11_no_state_outside_the_modelled_objects : state_sites_c_library = @nil string /\ state_sites_extension = @nil string /\ state_sites_rf_python = @nil string /\ state_sites_listing = @nil string.
Proof. repeat split; first [exact no_state_outside_objects_c_library | exact no_state_outside_objects_extension | exact no_state_outside_objects_rf_python | exact no_state_outside_objects_listing]. Qed.
Print Assumptions C11_no_state_outside_the_modelled_objects.
