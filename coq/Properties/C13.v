(* C13 -- Digital Metadata file placement agrees between writer and reader.
   Model/MdPlace.v is the hand model of DigitalMetadataWriter._sample_group_generator (file index,
   file timestamp, subdirectory timestamp, names) and DigitalMetadataReader._get_file_list (candidate
   files of a sample range), tied to /repo on every run by harness/props/c13.py (on-disk paths after
   write, _get_file_list, read(k,k), read_latest).  [Exact] is the integer arithmetic of the current
   (fixed) code; [LongDouble] is the np.longdouble arithmetic of the code before the fix, kept as a
   variant so that a revert is recognised and has a ready witness.
   cfg_ok c  :=  0 < n, 0 < d, 0 < file cadence, 0 < subdir cadence, file cadence | subdir cadence
   round_down x m := m * (x / m). *)
From Coq Require Import ZArith List Sorted.
From DRF Require Import Base.DivLemmas Model.Ld80 Model.MdPlace Model.MdStore Model.MdLive Proofs.MdPlaceProofs
  Proofs.MdStoreProofs Proofs.MdLiveProofs.
Import ListNotations.
Local Open Scope Z_scope.

(* round_down x m is the largest multiple of m that is <= x *)
Theorem C13_round_down_meaning : forall x m r, 0 < m ->
  (r = round_down x m <-> (exists j, r = m * j) /\ r <= x < r + m).
Proof. exact round_down_spec. Qed.
Print Assumptions C13_round_down_meaning.

(* the writer stores sample k in file <prefix>@T.h5 with T = floor(k*d/n) rounded down to the cadence *)
Theorem C13_writer_file_exact : forall c k,
  w_file_ts Exact c k = round_down (k * rd c / rn c) (fc c).
Proof. exact writer_file_exact. Qed.
Print Assumptions C13_writer_file_exact.

(* ... in the subdirectory named for T rounded down to the subdirectory cadence (which is also
   floor(k*d/n) rounded down to the subdirectory cadence) *)
Theorem C13_subdir_exact : forall c k, cfg_ok c ->
  fst (w_path Exact c k) = round_down (w_file_ts Exact c k) (sc c) /\
  fst (w_path Exact c k) = round_down (k * rd c / rn c) (sc c).
Proof. exact subdir_exact. Qed.
Print Assumptions C13_subdir_exact.

(* file boundaries: file j*cadence holds exactly ceil(j*cadence*n/d) <= k < ceil((j+1)*cadence*n/d) *)
Theorem C13_boundary_window : forall c k j, cfg_ok c ->
  (w_file_ts Exact c k = j * fc c <->
   cdiv (j * fc c * rn c) (rd c) <= k < cdiv ((j * fc c + fc c) * rn c) (rd c)).
Proof. exact file_window. Qed.
Print Assumptions C13_boundary_window.

(* the reader's candidate files for [s0, s1]: exactly the cadence slots between the files of s0 and
   s1, each in its own subdirectory, ... *)
Theorem C13_candidates_exact : forall c s0 s1 sub ts, cfg_ok c ->
  (In (sub, ts) (candidates Exact c s0 s1) <->
   (exists j, ts = fc c * j) /\ r_ts Exact c s0 <= ts <= r_ts Exact c s1 /\ sub = sub_of c ts).
Proof. exact candidates_in. Qed.
Print Assumptions C13_candidates_exact.

(* ... in strictly ascending time order *)
Theorem C13_candidates_ascending : forall c s0 s1, cfg_ok c ->
  StronglySorted lt_ts (candidates Exact c s0 s1).
Proof. exact candidates_sorted. Qed.
Print Assumptions C13_candidates_ascending.

(* the reader looks for sample k in exactly the file (and subdirectory) the writer stored it in *)
Theorem C13_writer_reader_agree : forall c k, cfg_ok c ->
  candidates Exact c k k = [w_path Exact c k].
Proof. exact writer_reader_agree. Qed.
Print Assumptions C13_writer_reader_agree.

(* and every range read that contains k visits that file *)
Theorem C13_range_visits_file : forall c s0 s1 k, cfg_ok c -> s0 <= k <= s1 ->
  In (w_path Exact c k) (candidates Exact c s0 s1).
Proof. exact writer_in_candidates. Qed.
Print Assumptions C13_range_visits_file.

(* the floating-point variant (code before the fix) violates the statement: witness
   n=10^8, d=7, cadence 3 s, k=21428571600000000 is stored in @1500000009, looked up in @1500000012 *)
Theorem C13_longdouble_variant_refuted :
  exists c k, cfg_ok c /\ 0 <= k /\
    w_file_ts LongDouble c k <> round_down (k * rd c / rn c) (fc c) /\
    ~ In (w_path LongDouble c k) (candidates LongDouble c k k).
Proof. exact ld_writer_refuted. Qed.
Print Assumptions C13_longdouble_variant_refuted.

(* a 64-bit unsigned evaluation of the same formula (index not converted to a Python int) violates
   the statement as soon as k*d >= 2^64: n/d = 10^11/1001, k = 169830173826173834 *)
Theorem C13_u64wrap_variant_refuted :
  exists c k, cfg_ok c /\ 0 <= k < 2 ^ 63 /\
    w_file_ts U64Wrap c k <> round_down (k * rd c / rn c) (fc c) /\
    ~ In (w_path U64Wrap c k) (candidates Exact c k k).
Proof. exact u64_writer_refuted. Qed.
Print Assumptions C13_u64wrap_variant_refuted.

(* across writer sessions: a DigitalMetadataWriter opened on an existing channel with any different
   parameter (rate, file cadence, subdirectory cadence) is refused and touches nothing ... *)
Theorem C13_mismatched_session_refused : forall fs c' calls,
  c' <> f_props fs -> open_writer fs c' = None /\ run_sessions fs [(c', calls)] = fs.
Proof. exact mismatched_session_refused. Qed.
Print Assumptions C13_mismatched_session_refused.

(* ... so after any sequence of sessions the channel keeps its parameters and holds exactly the calls
   of the sessions opened with identical parameters, every sample placed by that one rule (to which
   all theorems above and C12's apply) *)
Theorem C13_sessions_keep_one_rule : forall c ss,
  run_sessions (mkFs c [] []) ss = mkFs c (run_writes Exact c (accepted_calls c ss)) [].
Proof. exact sessions_keep_one_rule. Qed.
Print Assumptions C13_sessions_keep_one_rule.

(* ---- the placement arithmetic regenerated.  Gen/MdPlaceGen.v is produced on every run from the
   current source of DigitalMetadataWriter._sample_group_generator and
   DigitalMetadataReader._get_file_list (translator T7: Python integer expressions only, so arithmetic
   evaluated on a numpy array -- where k*d would wrap -- is not translatable).  The Exact variant of the
   hand model, about which the theorems above speak, is proved equal to it: the writer's file index,
   file time and subdirectory time, and the reader's whole candidate list. *)
From DRF Require Import Gen.MdPlaceGen Proofs.MdPlaceGenProofs.

Theorem C13_writer_placement_is_the_regenerated_code : forall c k,
  gen_w_file_idx (rn c) (rd c) (fc c) (sc c) k = w_file_idx Exact c k /\
  gen_w_file_ts (rn c) (rd c) (fc c) (sc c) (w_file_idx Exact c k) = w_file_ts Exact c k /\
  gen_w_sub_ts (rn c) (rd c) (fc c) (sc c) (w_file_ts Exact c k) = fst (w_path Exact c k).
Proof. exact writer_placement_regen. Qed.
Print Assumptions C13_writer_placement_is_the_regenerated_code.

Theorem C13_reader_candidates_are_the_regenerated_code : forall c s0 s1,
  gen_candidates c s0 s1 = candidates Exact c s0 s1.
Proof. exact reader_candidates_regen. Qed.
Print Assumptions C13_reader_candidates_are_the_regenerated_code.

(* ---- T22: the write front end -- how the index list is converted (exactly, to unsigned 64-bit), that an empty call is
   refused, that indices reach the file placement in the caller's order and are paired with their values by position,
   that an existing index is refused (create_group; ValueError -> IOError) and ends the call -- is, statement for
   statement, the code Model/MdStore.write_call was written from: Gen/MdFrontGen.v is regenerated on every run and
   exists only if every statement is unchanged *)
From DRF Require Import Gen.MdFrontGen Proofs.MdFrontGenProofs.
Theorem C13_write_front_end_is_as_modelled :
  gen_md_index_conversion = ExactUint64 /\
  gen_md_empty_call_refused = true /\
  gen_md_indices_in_call_order = true /\
  gen_md_values_paired_by_position = true /\
  gen_md_existing_index_refused = true /\
  gen_md_stops_at_first_refusal = true /\
  gen_md_none_is_empty_string = true.
Proof. exact md_front_end_as_modelled. Qed.
Print Assumptions C13_write_front_end_is_as_modelled.

(* ---- T17: the sources this property rests on keep no state outside the objects the model has (no static locals
   or mutable globals in C, no class-level / module-level containers, `global` rebinding or cache decorators in
   Python): the list of such sites, regenerated from the sources on every run, is empty *)
From Coq Require Import String List.
From DRF Require Import Gen.StateSites Proofs.StateSitesProofs.
Theorem C13_no_state_outside_the_modelled_objects : state_sites_metadata = @nil string.
Proof. repeat split; first [exact no_state_outside_objects_metadata]. Qed.
Print Assumptions C13_no_state_outside_the_modelled_objects.
