(* C18 -- cp / mv / ln transfer exactly the listed set.
   Property theorems only; each is closed by `exact` of a lemma and followed by Print Assumptions.

   Model: Model/Transfer.v -- the loop of list_drf._run_cp / _run_ln / _run_mv over the listing of
   Model/Listing.v, on abstract stores (relative path -> content identity).  `listing` is the
   (paths, exception) pair of the listing model on the source tree; C14 supplies what it contains
   (C14_channel_spec / C14_window_exact: exactly the files the options select; C14_listing_nodup;
   C14_never_fails...).  `lookup q s` reads a store; `inb q l` is membership in the listed paths. *)
From Coq Require Import ZArith List Bool.
From DRF Require Import Base.Regex Model.PathSpec Model.Listing Model.Transfer Proofs.TransferProofs.
Import ListNotations.
Local Open Scope Z_scope.

(* cp and mv: the destination afterwards is the destination before overlaid with
   { p |-> content of p in the source | p listed }, at the same relative paths; nothing else
   changes there; cp leaves the source as it was, mv removes from it exactly the listed paths *)
Theorem C18_transfer_set : forall o listing src dst,
  o = Cp \/ o = Mv -> no_terr listing -> NoDup (fst listing) ->
  (forall p, In p (fst listing) -> lookup p src <> None) ->
  exists src' dst', transfer o listing src dst = ((src', dst'), None) /\
    (forall q, lookup q dst' = if inb q (fst listing) then lookup q src else lookup q dst) /\
    (forall q, lookup q src' = if (match o with Mv => true | _ => false end) && inb q (fst listing) then None
                               else lookup q src).
Proof. exact transfer_set. Qed.
Print Assumptions C18_transfer_set.

(* ln (hard or symbolic): the same mapping, as links to the same content, when no listed path
   exists at the destination; the source store is returned unchanged *)
Theorem C18_transfer_ln : forall o listing src dst,
  is_ln o = true -> no_terr listing -> NoDup (fst listing) ->
  (forall p, In p (fst listing) -> lookup p src <> None) ->
  (forall p, In p (fst listing) -> lookup p dst = None) ->
  exists dst', transfer o listing src dst = ((src, dst'), None) /\
    (forall q, lookup q dst' = if inb q (fst listing) then lookup q src else lookup q dst).
Proof. exact transfer_ln. Qed.
Print Assumptions C18_transfer_ln.

(* cp and ln leave the source unchanged -- whatever the listing, also when they stop on an error *)
Theorem C18_cp_ln_source_unchanged : forall o listing src dst,
  o <> Mv -> fst (fst (transfer o listing src dst)) = src.
Proof. exact cp_ln_source_unchanged. Qed.
Print Assumptions C18_cp_ln_source_unchanged.

(* mv removes from the source exactly what it transferred (the mv instance of C18_transfer_set) *)
Theorem C18_mv_removes_exactly_transferred : forall listing src dst,
  no_terr listing -> NoDup (fst listing) -> (forall p, In p (fst listing) -> lookup p src <> None) ->
  exists src' dst', transfer Mv listing src dst = ((src', dst'), None) /\
    (forall q, lookup q dst' = if inb q (fst listing) then lookup q src else lookup q dst) /\
    (forall q, lookup q src' = if true && inb q (fst listing) then None else lookup q src).
Proof. exact (fun listing src dst => transfer_set Mv listing src dst (or_intror eq_refl)). Qed.
Print Assumptions C18_mv_removes_exactly_transferred.

(* linking onto an existing destination fails there, with nothing changed by that step *)
Theorem C18_ln_existing_fails : forall o p c c' src dst rest,
  is_ln o = true -> lookup p src = Some c -> lookup p dst = Some c' ->
  run_steps o (p :: rest) (src, dst) = ((src, dst), Some FileExists).
Proof. exact ln_existing_fails. Qed.
Print Assumptions C18_ln_existing_fails.

(* ---- T17: the sources this property rests on keep no state outside the objects the model has (no static locals
   or mutable globals in C, no class-level / module-level containers, `global` rebinding or cache decorators in
   Python): the list of such sites, regenerated from the sources on every run, is empty *)
From Coq Require Import String List.
From DRF Require Import Gen.StateSites Proofs.StateSitesProofs.
Theorem C18_no_state_outside_the_modelled_objects : state_sites_listing = @nil string.
Proof. repeat split; first [exact no_state_outside_objects_listing]. Qed.
Print Assumptions C18_no_state_outside_the_modelled_objects.
