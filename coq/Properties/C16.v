(* C16 -- Ringbuffer deletes only what it must, oldest first, with exact accounting.
   Property theorems only; each is closed by `exact` of a lemma of Proofs/RingbufferProofs.v.
   The model (Model/Ringbuffer.v) is the handler DigitalRFRingbufferHandler builds (MRO Count ->
   Time -> Size -> Base) plus the files on disk; `run_ops c ops` runs an arbitrary history of
   events, batch calls, re-scans and changes behind the handler's back from the empty handler.
   Which variant of the duplicate-accounting site (CountOnce / CountTwice) the implementation is,
   is decided by the correspondence on every run; the theorems are about CountOnce. *)
From Coq Require Import ZArith List Bool.
From DRF Require Import Model.Ringbuffer Proofs.RingbufferProofs.
Import ListNotations.
Local Open Scope Z_scope.

(* bookkeeping = truth after every history: records and queues hold the same paths, every queue
   is ascending by time without duplicate, active_size is the total size of the tracked files *)
Theorem C16_Inv_preserved : forall c ops, c_dup c = CountOnce -> Inv c (h (run_ops c ops)).
Proof. exact inv_preserved. Qed.
Print Assumptions C16_Inv_preserved.

(* every deletion removes a file that was tracked and whose name a handler regex matches
   (never a properties file, a tmp. file or an unreported file) *)
Theorem C16_deletes_only_tracked : forall c ops d, c_dup c = CountOnce ->
  In d (dels (run_ops c ops)) ->
  In (d_path d) (keys (recs (d_pre d))) /\ trackable (d_path d) = true.
Proof. exact deletes_only_tracked. Qed.
Print Assumptions C16_deletes_only_tracked.

(* ... and only a path that an event, a batch call or a re-scan reported before *)
Theorem C16_deletes_only_reported : forall c ops d,
  In d (dels (run_ops c ops)) -> reported_from c init ops (d_path d).
Proof. exact deletes_only_reported. Qed.
Print Assumptions C16_deletes_only_reported.

(* strictly oldest first within a channel: no file tracked in the channel is older than the one deleted *)
Theorem C16_oldest_first : forall c ops d, c_dup c = CountOnce -> In d (dels (run_ops c ops)) ->
  forall x, In x (keys (recs (d_pre d))) -> pg x = pg (d_path d) -> pk (d_path d) <= pk x.
Proof. exact oldest_first. Qed.
Print Assumptions C16_oldest_first.

(* a file is deleted only when a configured limit is exceeded by the true quantities of the
   tracked files: files in the channel, time span of the channel, total size *)
Theorem C16_delete_only_if_exceeded : forall c ops d, c_dup c = CountOnce ->
  In d (dels (run_ops c ops)) ->
  act (d_pre d) = (if has_size c then total (recs (d_pre d)) else act (d_pre d)) /\
  ((d_why d = 1 /\ exists n, c_count c = Some n /\ group_count (d_pre d) (pg (d_path d)) > n) \/
   (d_why d = 2 /\ exists n, c_dur c = Some n /\
      exists y, In y (keys (recs (d_pre d))) /\ pg y = pg (d_path d) /\ pk y - pk (d_path d) > n) \/
   (d_why d = 3 /\ exists n, c_size c = Some n /\ total (recs (d_pre d)) > n)).
Proof. exact delete_only_if_exceeded. Qed.
Print Assumptions C16_delete_only_if_exceeded.

(* a file leaves the disk during a step only through a logged (hence justified) deletion *)
Theorem C16_files_leave_only_by_logged_deletion : forall c ops o, c_dup c = CountOnce ->
  exists nd, dels (run_ops c (ops ++ [o])) = dels (run_ops c ops) ++ nd /\
    forall x, rget x (disk (run_ops c (ops ++ [o]))) =
              if mem x (map d_path nd) then None else rget x (env_effect o (disk (run_ops c ops))).
Proof. exact files_leave_only_by_logged_deletion. Qed.
Print Assumptions C16_files_leave_only_by_logged_deletion.

(* in particular a file no regex matches is never touched by the ring buffer *)
Theorem C16_untrackable_never_deleted : forall c ops o x, c_dup c = CountOnce -> trackable x = false ->
  rget x (disk (run_ops c (ops ++ [o]))) = rget x (env_effect o (disk (run_ops c ops))).
Proof. exact untrackable_never_deleted. Qed.
Print Assumptions C16_untrackable_never_deleted.

(* under the property's hypothesis (count >= 1, duration >= 0, size limit >= one largest file per
   channel: |G| * M) no history raises and every expiry loop terminates within its fuel *)
Theorem C16_no_exception_and_termination : forall c G M ops,
  CfgOk c G M -> Forall (OpOk G M) ops -> err (run_ops c ops) = false.
Proof. exact no_exception. Qed.
Print Assumptions C16_no_exception_and_termination.

(* the per-channel limits hold after every step of every history *)
Theorem C16_group_limits_always : forall c G M ops,
  CfgOk c G M -> Forall (OpOk G M) ops -> GL c (h (run_ops c ops)).
Proof. exact group_limits_always. Qed.
Print Assumptions C16_group_limits_always.

(* once a newly reported file has been handled every configured limit holds again *)
Theorem C16_limits_hold_after_add : forall c G M ops p sz,
  CfgOk c G M -> Forall (OpOk G M) ops -> get_file_record (run_ops c ops) p = Some sz ->
  err (run_ops c (ops ++ [Created p])) = false /\ AllLimits c (h (run_ops c (ops ++ [Created p]))).
Proof. exact limits_hold_after_add. Qed.
Print Assumptions C16_limits_hold_after_add.

(* the defective variant (the code before the fix: size counted again for an already queued path)
   falsifies the property on: three 100-byte files, size limit 350, newest reported twice *)
Theorem C16_count_twice_refuted :
  ~ Inv wit_cfg (h (run_ops wit_cfg wit_ops)) /\
  exists d, In d (dels (run_ops wit_cfg wit_ops)) /\ ~ Justified wit_cfg d /\
            total (recs (d_pre d)) = 300 /\ d_path d = wp 0.
Proof. exact count_twice_refuted. Qed.
Print Assumptions C16_count_twice_refuted.

(* ---- regenerated from ringbuffer.py on every run (translator T10, Gen/RingbufGen.v): the `while`
   condition of each expirer (with the super()._expire call after and outside the loop), the queue
   duration, and the order in which the mixins run.  The model's loops use exactly these. *)
From DRF Require Import Gen.RingbufGen Proofs.RingbufGenProofs.

Theorem C16_loops_use_the_regenerated_conditions : forall c lim f s g,
  count_loop c lim (S f) s g =
    (if err s then s else if gen_count_cond (qlen s g) lim then count_loop c lim f (expire_oldest_from_group c s g 1 g) g else s) /\
  time_loop c lim (S f) s g =
    (if err s then s else if gen_time_cond (queue_duration (qget g (qs (h s)))) lim
                          then time_loop c lim f (expire_oldest_from_group c s g 2 g) g else s) /\
  size_loop c lim (S f) s g =
    (if err s then s else if gen_size_cond (act (h s)) lim
                          then size_loop c lim f (expire_oldest_from_group c s (removal_group (h s) g) 3 g) g else s).
Proof. exact loops_use_regenerated_conditions. Qed.
Print Assumptions C16_loops_use_the_regenerated_conditions.

Theorem C16_queue_duration_is_the_regenerated_code : forall q,
  queue_duration q = match q with [] => gen_queue_duration_empty | x :: _ => gen_queue_duration (pk x) (pk (last q x)) end.
Proof. exact queue_duration_regen. Qed.
Print Assumptions C16_queue_duration_is_the_regenerated_code.

Theorem C16_expirer_order_is_the_regenerated_order : forall c s g,
  expire c s g = fold_left (run_expirer c g) gen_mro s.
Proof. exact expire_order_regen. Qed.
Print Assumptions C16_expirer_order_is_the_regenerated_order.

(* ---- T17: the sources this property rests on keep no state outside the objects the model has (no static locals
   or mutable globals in C, no class-level / module-level containers, `global` rebinding or cache decorators in
   Python): the list of such sites, regenerated from the sources on every run, is empty *)
From Coq Require Import String List.
From DRF Require Import Gen.StateSites Proofs.StateSitesProofs.
Theorem C16_no_state_outside_the_modelled_objects : state_sites_events = @nil string /\ state_sites_listing = @nil string.
Proof. repeat split; first [exact no_state_outside_objects_events | exact no_state_outside_objects_listing]. Qed.
Print Assumptions C16_no_state_outside_the_modelled_objects.
