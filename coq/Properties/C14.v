(* C14 -- Listing is sound, complete, ordered and window-exact.
   Property theorems only; each is closed by `exact` of a lemma and followed by Print Assumptions.

   Model: Model/Listing.v -- _decorate_drf_files, _decorated_list_slice, _yield_matching_files and
   ilsdrf over an abstract tree (File | Dir entries | Gone = a directory whose listing raises
   OSError), over the file-name patterns l_re_* regenerated from list_drf.py on every run.
   `variant` parametrises the four defect sites; `fixed` is the code after the repairs in /repo,
   `legacy` the code before.  Which one /repo implements is decided on every run by the
   correspondence (harness/props/c14.py); the theorems about `fixed` are the property, the
   `_refuted` theorems about `legacy` are the findings (fixed in /repo; see known_findings.json).

   A channel is described by D : list sub = its timestamped subdirectories (time, name, decorated
   matched files or None when unlistable), sorted.  Hypotheses of the exactness theorems:
   strict_sorted (distinct subdirectory times), all_listed (nothing vanishes during the listing),
   consistent (the format's layout, C04: a file's name time lies in [its subdirectory's time, the
   next subdirectory's time)), nonneg (name times are not negative -- proved for every match in
   C14_yield_matching_spec), window_wf (start <= end). *)
From Coq Require Import ZArith List Bool Sorted.
From DRF Require Import Base.Regex Base.WordLit Gen.Grammar Model.PathSpec Model.Listing
  Proofs.GrammarProofs Proofs.ListingProofs Proofs.ListingTreeProofs.
Import ListNotations.
Local Open Scope Z_scope.

(* the per-channel listing IS the set-theoretic Spec: all matched files of all timestamped
   subdirectories, sorted by (time, path), filtered by the inclusive window, preceded -- for a
   metadata-yielding channel with a start time -- by the latest file before the start unless a file
   is stamped exactly at it *)
Theorem C14_channel_spec : forall ydmd st en D,
  strict_sorted D -> all_listed D -> consistent D -> nonneg D -> window_wf st en ->
  yield_channel fixed ydmd st en false D = (spec_channel ydmd st en false D, None).
Proof. exact channel_spec. Qed.
Print Assumptions C14_channel_spec.

(* sound, complete and window-exact in one equivalence: listed iff it is a matched file of a
   timestamped subdirectory whose time lies in [start, end], or it is the forward-fill file *)
Theorem C14_window_exact : forall ydmd st en D,
  strict_sorted D -> all_listed D -> consistent D -> nonneg D -> window_wf st en ->
  forall x, In x (fst (yield_channel fixed ydmd st en false D)) <->
    In x (ffill_extra ydmd st en (all_files D)) \/
    ((exists d, In d D /\ In x (F d)) /\ win st en x = true).
Proof. exact listing_in. Qed.
Print Assumptions C14_window_exact.

(* the forward-fill file: only for a metadata-yielding channel with a start time, a file of the
   channel strictly before the start, present only when no file is stamped exactly at the start *)
Theorem C14_ffill_file : forall ydmd st en A x, In x (ffill_extra ydmd st en A) ->
  ydmd = true /\ exists s, st = Some s /\ In x A /\ fst x < s /\ (forall y, In y A -> fst y <> s).
Proof. exact ffill_extra_in. Qed.
Print Assumptions C14_ffill_file.

(* ... it is the LATEST file before the start ... *)
Theorem C14_ffill_latest : forall ydmd st en A x, StronglySorted dle A -> In x (ffill_extra ydmd st en A) ->
  forall y s, st = Some s -> In y A -> fst y < s -> dle y x.
Proof. exact ffill_extra_latest. Qed.
Print Assumptions C14_ffill_latest.

(* ... and there is at most one *)
Theorem C14_ffill_at_most_one : forall ydmd st en A, (length (ffill_extra ydmd st en A) <= 1)%nat.
Proof. exact ffill_extra_length. Qed.
Print Assumptions C14_ffill_at_most_one.

(* exactly once *)
Theorem C14_listing_nodup : forall ydmd st en D,
  strict_sorted D -> all_listed D -> consistent D -> nonneg D -> window_wf st en ->
  forall reverse, NoDup (flat_map F D) -> NoDup (fst (yield_channel fixed ydmd st en reverse D)).
Proof. exact listing_nodup. Qed.
Print Assumptions C14_listing_nodup.

(* ascending (time, path) order within the channel ... *)
Theorem C14_listing_sorted : forall ydmd st en D,
  strict_sorted D -> all_listed D -> consistent D -> nonneg D -> window_wf st en ->
  StronglySorted dle (fst (yield_channel fixed ydmd st en false D)).
Proof. exact listing_sorted. Qed.
Print Assumptions C14_listing_sorted.

(* ... and reversing changes only the order: for EVERY channel and window, no hypothesis *)
Theorem C14_reverse_is_rev : forall ydmd st en D,
  yield_channel fixed ydmd st en true D = (rev (fst (yield_channel fixed ydmd st en false D)), None).
Proof. exact reverse_is_rev. Qed.
Print Assumptions C14_reverse_is_rev.

(* never fails on empty or vanishing subdirectories: for EVERY channel (subdirectories with no
   files, with s_files = None), window and direction *)
Theorem C14_never_fails_on_empty_or_vanished : forall ydmd st en reverse D,
  snd (yield_channel fixed ydmd st en reverse D) = None.
Proof. exact never_fails. Qed.
Print Assumptions C14_never_fails_on_empty_or_vanished.

(* ... and for the whole tree walk (Gone = a directory that vanished, Dir [] = an empty one): the
   repaired code raises nothing but the ValueError of an impossible calendar date in a name *)
Theorem C14_walk_never_fails : forall o t,
  snd (walk fixed o t) = None \/ snd (walk fixed o t) = Some ValueErrorE.
Proof. exact walk_never_fails. Qed.
Print Assumptions C14_walk_never_fails.

(* whatever the variant and the direction, only matched files of the channel's own timestamped
   subdirectories are ever yielded *)
Theorem C14_channel_sound_any_variant : forall v ydmd st en reverse D x,
  In x (fst (yield_channel v ydmd st en reverse D)) -> exists d, In d D /\ In x (F d).
Proof. exact yield_channel_subset. Qed.
Print Assumptions C14_channel_sound_any_variant.

(* _yield_matching_files of a channel directory equals the Spec of its decorated subdirectories *)
Theorem C14_yield_matching_spec : forall o dirs props r ydmd subs others,
  file_regex (existsb (matches listing_ci l_re_drfpropfile) props)
             (existsb (matches listing_ci l_re_dmdpropfile) props) (o_flags o) = Some (r, ydmd) ->
  classify_dirs r dirs = Some (subs, others) ->
  let D := isort sub_leb subs in
  strict_sorted D -> all_listed D -> consistent D -> window_wf (o_start o) (o_end o) ->
  yield_matching fixed o dirs props =
    (map snd (spec_channel ydmd (o_start o) (o_end o) (o_reverse o) D), None, others).
Proof. exact yield_matching_spec. Qed.
Print Assumptions C14_yield_matching_spec.

(* the whole walk, every variant: a listed path is a selected properties file of the directory
   holding it, or sub/name with sub a timestamped subdirectory of a directory holding a properties
   file and name matched by the file pattern that the flags and that directory's properties files
   select (listed_ok, Proofs/ListingTreeProofs.v): never outside the structure, never an excluded
   kind, never in a directory without a properties file *)
Theorem C14_listing_sound : forall v o t p, In p (fst (walk v o t)) -> listed_ok o t p.
Proof. exact walk_sound. Qed.
Print Assumptions C14_listing_sound.

(* never a tmp. file: the last component of a listed path never starts with tmp. *)
Theorem C14_never_tmp : forall v o t p, In p (fst (lsdrf v o t)) ->
  exists base, has_basename p base /\ starts_with (W "tmp.") base = false.
Proof. exact lsdrf_never_tmp. Qed.
Print Assumptions C14_never_tmp.

(* no matching name is lost in _decorate_drf_files (the defaulted branch of the model is dead) *)
Theorem C14_decorate_complete : forall r sub names nm,
  file_re r -> In nm names -> rmatch listing_ci r nm <> None ->
  exists t, In (t, join2 sub nm) (decorate r sub names).
Proof. exact decorate_complete. Qed.
Print Assumptions C14_decorate_complete.

(* properties files according to their own flags, first in their directory's listing *)
Theorem C14_props_by_flags : forall v o es, props_of es <> [] ->
  exists rest, fst (walk v o (Dir es)) =
    match prop_regex (o_flags o) with
    | Some pr => sort_words (o_reverse o) (filter (matches listing_ci pr) (props_of es))
    | None => []
    end ++ rest.
Proof. exact props_by_flags. Qed.
Print Assumptions C14_props_by_flags.

(* the slice itself, on any list sorted by time: forward-fill entry ++ window filter *)
Theorem C14_slice_sorted : forall (A : Type) (time : A -> Z) l st en ff,
  tsorted time l -> window_wf st en ->
  snd (slice fixed time l st en ff) = ffpre time ff st l ++ filter (wok time st en) l.
Proof. exact @slice_sorted. Qed.
Print Assumptions C14_slice_sorted.

(* ---- the code before the repairs (variant legacy) falsifies the statements: the findings *)
Theorem C14_reverse_is_rev_refuted :
  fst (yield_channel legacy true (Some 113) None true exD)
  <> rev (fst (yield_channel legacy true (Some 113) None false exD)).
Proof. exact legacy_reverse_refuted. Qed.
Print Assumptions C14_reverse_is_rev_refuted.

Theorem C14_never_fails_refuted_indexerror :
  snd (yield_channel legacy true (Some 150) None false exD_empty_middle) = Some IndexError.
Proof. exact legacy_indexerror_refuted. Qed.
Print Assumptions C14_never_fails_refuted_indexerror.

Theorem C14_never_fails_refuted_oserror :
  snd (yield_channel legacy true (Some 205) None false exD_gone_middle) = Some OSErrorE.
Proof. exact legacy_oserror_refuted. Qed.
Print Assumptions C14_never_fails_refuted_oserror.

Theorem C14_window_exact_refuted :
  ~ In (5, W "A/b") (fst (yield_channel legacy false None (Some 5) false exD_dups)) /\
  In (5, W "A/b") (fst (yield_channel fixed false None (Some 5) false exD_dups)).
Proof. exact legacy_endtime_refuted. Qed.
Print Assumptions C14_window_exact_refuted.

(* ---- T14: the hand model of _decorated_list_slice IS the code regenerated from list_drf.py:
   the model's (dec_list[:ks], dec_list[ks:ke]) are cut at the indices the regenerated function returns *)
From DRF Require Import Model.ListSliceBase Gen.ListSliceGen Proofs.ListSliceGenProofs.
Theorem C14_slice_is_the_regenerated_code : forall (A : Type) (time : A -> Z) l st en ffill,
  slice fixed time l st en ffill = cut l (gen_decorated_list_slice (map time l) st en ffill)
  /\ (fst (gen_decorated_list_slice (map time l) st en ffill) <= snd (gen_decorated_list_slice (map time l) st en ffill)
      <= length l)%nat.
Proof. exact @decorated_list_slice_regen. Qed.
Print Assumptions C14_slice_is_the_regenerated_code.

(* the regenerated code itself is window-exact on every list in ascending time order *)
Theorem C14_regenerated_slice_window_exact : forall (A : Type) (time : A -> Z) l st en ff,
  tsorted time l -> window_wf st en ->
  snd (cut l (gen_decorated_list_slice (map time l) st en ff)) = ffpre time ff st l ++ filter (wok time st en) l.
Proof. exact @regenerated_slice_window_exact. Qed.
Print Assumptions C14_regenerated_slice_window_exact.

(* ---- T17: the sources this property rests on keep no state outside the objects the model has (no static locals
   or mutable globals in C, no class-level / module-level containers, `global` rebinding or cache decorators in
   Python): the list of such sites, regenerated from the sources on every run, is empty *)
From Coq Require Import String List.
From DRF Require Import Gen.StateSites Proofs.StateSitesProofs.
Theorem C14_no_state_outside_the_modelled_objects : state_sites_listing = @nil string.
Proof. repeat split; first [exact no_state_outside_objects_listing]. Qed.
Print Assumptions C14_no_state_outside_the_modelled_objects.
