(* C14 placeholder while the correspondence is brought up *)
From Coq Require Import ZArith.
From DRF Require Import Model.Listing.
