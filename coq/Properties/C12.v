(* C12 -- Digital Metadata round-trip.
   Model/MdStore.v is the hand model of DigitalMetadataWriter.write/_write/_sample_group_generator
   and DigitalMetadataReader._get_file_list/_add_metadata/read/get_bounds/read_latest (with the
   ilsdrf listing order) of python/digital_rf/digital_metadata.py, tied to /repo on every run by
   harness/props/c12.py.  Values are opaque tags (value conversion is covered by the correspondence).
   [fixed_code] = (Exact arithmetic, integer sort of group names, clipped forward fill) is the
   current code; the pre-fix choices are variants refuted below.
     run_writes Exact c h : the channel directory after the write calls h (a list of batches of
                            (index, value); a call stops at its first refused sample)
     spec_of h            : the Spec -- the accepted (index, value) pairs; an existing index is refused
     hist_ok h            : all indices are >= 0;   cfg_ok c : positive rate and cadences, file | subdir
     key_lt x y := fst x < fst y
     is_latest_le sp s0 z := fst z <= s0 /\ no sample of sp at or before s0 has a larger index *)
From Coq Require Import ZArith List Sorted.
From DRF Require Import Model.MdPlace Model.MdStore Proofs.MdPlaceProofs Proofs.MdStoreProofs.
Import ListNotations.
Local Open Scope Z_scope.

(* every written sample is returned by any read whose inclusive range contains its index *)
Theorem C12_md_roundtrip : forall c h k v s0 s1, cfg_ok c -> hist_ok h ->
  In (k, v) (spec_of h) -> s0 <= k <= s1 ->
  exists r, read fixed_code c (run_writes Exact c h) (Some s0) (Some s1) false = ROk r /\ In (k, v) r.
Proof. exact md_roundtrip. Qed.
Print Assumptions C12_md_roundtrip.

(* in strictly ascending index order (plain and forward-fill reads) *)
Theorem C12_md_ascending : forall c h s0 s1 ff r, cfg_ok c -> hist_ok h ->
  read fixed_code c (run_writes Exact c h) (Some s0) (Some s1) ff = ROk r -> StronglySorted key_lt r.
Proof. exact md_ascending. Qed.
Print Assumptions C12_md_ascending.

(* together with nothing that was not written, and nothing outside the range *)
Theorem C12_md_nothing_else : forall c h k v s0 s1 r, cfg_ok c -> hist_ok h ->
  read fixed_code c (run_writes Exact c h) (Some s0) (Some s1) false = ROk r -> In (k, v) r ->
  In (k, v) (spec_of h) /\ s0 <= k <= s1.
Proof. exact md_nothing_else. Qed.
Print Assumptions C12_md_nothing_else.

(* the reported bounds are the smallest and largest index written (IOError when nothing was) *)
Theorem C12_md_bounds : forall c h, cfg_ok c -> hist_ok h ->
  (spec_of h = [] -> get_bounds fixed_code (run_writes Exact c h) = None) /\
  (spec_of h <> [] -> exists lo hi,
     get_bounds fixed_code (run_writes Exact c h) = Some (lo, hi) /\
     In lo (map fst (spec_of h)) /\ In hi (map fst (spec_of h)) /\
     forall k v, In (k, v) (spec_of h) -> lo <= k <= hi).
Proof. exact md_bounds. Qed.
Print Assumptions C12_md_bounds.

(* a forward-fill read returns exactly the samples in (s0, s1] and the latest sample at or before s0 *)
Theorem C12_md_ffill : forall c h s0 s1, cfg_ok c -> hist_ok h -> spec_of h <> [] -> s0 <= s1 ->
  exists r, read fixed_code c (run_writes Exact c h) (Some s0) (Some s1) true = ROk r /\
    forall z, In z r <->
      (In z (spec_of h) /\ (s0 < fst z <= s1 \/ is_latest_le (spec_of h) s0 z)).
Proof. exact md_ffill. Qed.
Print Assumptions C12_md_ffill.

(* read_latest returns exactly the sample with the highest index *)
Theorem C12_md_latest : forall c h, cfg_ok c -> hist_ok h -> spec_of h <> [] ->
  exists z, read_latest fixed_code c (run_writes Exact c h) = ROk [z] /\ In z (spec_of h) /\
    forall y, In y (spec_of h) -> fst y <= fst z.
Proof. exact md_latest. Qed.
Print Assumptions C12_md_latest.

(* writing an index that already exists is refused, leaves the directory (hence the stored sample)
   unchanged, and every index is stored once *)
Theorem C12_md_duplicate_refused_unchanged : forall c h k v v', cfg_ok c -> hist_ok h -> 0 <= k ->
  In (k, v) (spec_of h) ->
  write_call Exact c (run_writes Exact c h) [(k, v')] = (run_writes Exact c h, false) /\
  spec_of (h ++ [[(k, v')]]) = spec_of h /\
  NoDup (map fst (spec_of h)).
Proof. exact md_duplicate_refused_unchanged. Qed.
Print Assumptions C12_md_duplicate_refused_unchanged.

(* a write call (any batch) is refused exactly when the Spec refuses it, i.e. only for duplicates *)
Theorem C12_md_refusal_iff_duplicate : forall c h l, cfg_ok c -> hist_ok h ->
  (forall x, In x l -> 0 <= fst x) ->
  snd (write_call Exact c (run_writes Exact c h) l) = snd (spec_call (spec_of h) l).
Proof. exact md_refusal_iff_duplicate. Qed.
Print Assumptions C12_md_refusal_iff_duplicate.

(* the directory is exactly the Spec: every group in the file the exact writer computes, once *)
Theorem C12_md_store_is_spec : forall c h, hist_ok h ->
  WF c (run_writes Exact c h) /\ map e_kv (run_writes Exact c h) = spec_of h.
Proof. exact run_writes_sim. Qed.
Print Assumptions C12_md_store_is_spec.

(* pre-fix variant: is_edge=False in the forward-fill pass returns the last sample of the file
   (samples T+1,T+3,T+5; read(T+2,T+4,'ffill') -> [T+5, T+3]) *)
Theorem C12_ffill_wholefile_variant_refuted :
  exists c h s0 s1 r, cfg_ok c /\ hist_ok h /\ s0 <= s1 /\
    read (mkVar Exact IntSort WholeFile) c (run_writes Exact c h) (Some s0) (Some s1) true = ROk r /\
    ~ (forall z, In z r -> In z (spec_of h) /\ (s0 < fst z <= s1 \/ is_latest_le (spec_of h) s0 z)).
Proof. exact ffill_wholefile_refuted. Qed.
Print Assumptions C12_ffill_wholefile_variant_refuted.

(* pre-fix variant: group names sorted as strings (samples 5,9,10,11 in one file -> bounds (10, 9)) *)
Theorem C12_bounds_strsort_variant_refuted :
  exists c h lo hi, cfg_ok c /\ hist_ok h /\
    get_bounds (mkVar Exact StrSort Clipped) (run_writes Exact c h) = Some (lo, hi) /\
    ~ (forall k v, In (k, v) (spec_of h) -> lo <= k <= hi).
Proof. exact bounds_strsort_refuted. Qed.
Print Assumptions C12_bounds_strsort_variant_refuted.

(* ---- T22: the write front end -- how the index list is converted (exactly, to unsigned 64-bit), that an empty call is
   refused, that indices reach the file placement in the caller's order and are paired with their values by position,
   that an existing index is refused (create_group; ValueError -> IOError) and ends the call -- is, statement for
   statement, the code Model/MdStore.write_call was written from: Gen/MdFrontGen.v is regenerated on every run and
   exists only if every statement is unchanged *)
From DRF Require Import Gen.MdFrontGen Proofs.MdFrontGenProofs.
Theorem C12_write_front_end_is_as_modelled :
  gen_md_index_conversion = ExactUint64 /\
  gen_md_empty_call_refused = true /\
  gen_md_indices_in_call_order = true /\
  gen_md_values_paired_by_position = true /\
  gen_md_existing_index_refused = true /\
  gen_md_stops_at_first_refusal = true /\
  gen_md_none_is_empty_string = true.
Proof. exact md_front_end_as_modelled. Qed.
Print Assumptions C12_write_front_end_is_as_modelled.

(* ---- T17: the sources this property rests on keep no state outside the objects the model has (no static locals
   or mutable globals in C, no class-level / module-level containers, `global` rebinding or cache decorators in
   Python): the list of such sites, regenerated from the sources on every run, is empty *)
From Coq Require Import String List.
From DRF Require Import Gen.StateSites Proofs.StateSitesProofs.
Theorem C12_no_state_outside_the_modelled_objects : state_sites_metadata = @nil string /\ state_sites_listing = @nil string.
Proof. repeat split; first [exact no_state_outside_objects_metadata | exact no_state_outside_objects_listing]. Qed.
Print Assumptions C12_no_state_outside_the_modelled_objects.
