(* C05 -- placeholder until Proofs/WriterProofs.v is in place. *)
From Coq Require Import ZArith List.
From DRF Require Import Model.WriterCore.
Local Open Scope Z_scope.

Theorem C05_failed_writer_refuses_partial : forall c st bl vec, w_failed st = true -> write_blocks c st bl vec = (-1, st).
Proof. intros c st bl vec H. unfold write_blocks. rewrite H. reflexivity. Qed.
Print Assumptions C05_failed_writer_refuses_partial.
