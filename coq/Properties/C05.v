(* C05 -- Write-once, forward-only recording with atomic rejection.
   Models: Model/WriterCore.v (C writer), Model/IndexCalc.v (index helpers), Model/PyWriter.v (Python
   front end), tied to /repo by correspondence (harness/props/c05.py: Python API, C API, and the C
   index helpers called directly). *)
From Coq Require Import ZArith List Bool.
From DRF Require Import Model.IndexCalc Model.WriterCore Model.PyWriter Proofs.WriterBasics Proofs.WriterInv.
Import ListNotations.
Local Open Scope Z_scope.

(* every call the C library rejects up front (failed writer, start before the cursor, gapped data in
   continuous mode) leaves the whole state -- files, cursor, open file -- exactly as it was *)
Theorem C05_c_reject_changes_nothing : forall c st bl vec rc st',
  write_blocks c st bl vec = (rc, st') -> rc = -1 \/ rc = -3 \/ rc = -4 -> st' = st.
Proof. exact write_blocks_reject_noop. Qed.
Print Assumptions C05_c_reject_changes_nothing.

(* malformed block arrays (first offset not 0, start before the cursor, offsets/indices not
   increasing, overlapping blocks, offsets past the data): whatever the state and mode, the call
   ends with the state unchanged; it returns non-zero unless there was no data at all *)
Theorem C05_c_malformed_changes_nothing : forall c st bl vec,
  valid_arrays (w_gi st) (Z.of_nat (length vec)) bl = false ->
  exists rc, rc <> 0 /\ write_blocks c st bl vec = (rc, st) \/ (vec = [] /\ write_blocks c st bl vec = (rc, st)).
Proof. exact c_malformed_call_changes_nothing. Qed.
Print Assumptions C05_c_malformed_changes_nothing.

(* the array checks do not depend on the per-file iteration, so a call cannot pass them for its
   first file and fail them for a later one (no half-written rejected call) *)
Theorem C05_validation_independent_of_iteration : forall start gi chunk cont sw left cap bl vlen next fe,
  create_rf_data_index start gi chunk cont sw left cap bl vlen next fe = None <->
  match bl with
  | [] => True
  | (g0, _) :: _ => ((sw =? 0) && (g0 <? gi)) || bad_blocks true vlen 0 0 bl = true
  end.
Proof. exact crdi_none_iff. Qed.
Print Assumptions C05_validation_independent_of_iteration.

(* Python front end: a call answered with ValueError / IOError changes nothing at all *)
Theorem C05_py_rf_write_reject_changes_nothing : forall gr c ps ns vec cls ret ps',
  py_rf_write gr c ps ns vec = ((cls, ret), ps') -> cls = ValueError \/ cls = IOError -> ps' = ps.
Proof. exact py_rf_write_reject_noop. Qed.
Print Assumptions C05_py_rf_write_reject_changes_nothing.

Theorem C05_py_rf_write_blocks_reject_changes_nothing : forall c ps G D vec cls ret ps',
  py_rf_write_blocks c ps G D vec = ((cls, ret), ps') -> cls = ValueError \/ cls = IOError -> ps' = ps.
Proof. exact py_rf_write_blocks_reject_noop. Qed.
Print Assumptions C05_py_rf_write_blocks_reject_changes_nothing.

(* nothing the Python validation lets through is rejected by the C validation half-way *)
Theorem C05_py_valid_implies_c_valid : forall next vlen G D,
  py_arrays_ok next vlen G D = true -> valid_arrays next vlen (combine G D) = true.
Proof. exact py_valid_implies_c_valid. Qed.
Print Assumptions C05_py_valid_implies_c_valid.

(* a sample, once written, never changes value; a rejected call (start before the cursor) is a no-op
   on the Spec; proved for histories of single-block calls in chunked mode (gapped, or continuous with
   compression/checksum): the stored map equals the Spec map, in which new writes lie strictly above
   every stored index.  (The multi-block and un-chunked cases are covered by correspondence only.) *)
Theorem C05_never_rewritten_single_chunked_partial : forall c ops, vcfg c -> c_chunk c = true ->
  Forall (fun op => 0 <= fst op) ops ->
  refines c (fold_left (model_step c) ops init_state) (fold_left (spec_step c) ops spec_init).
Proof. exact writer_refines_single_chunked. Qed.
Print Assumptions C05_never_rewritten_single_chunked_partial.

(* ---- block calls (any number of blocks per call), chunked layouts: the stored map equals the Spec map
   after every history, in which an accepted call only adds samples at indices above every stored one
   -- a sample, once written, never changes value -- and a call with invalid arrays is a no-op both
   in the model and in the Spec, so later valid writes behave as if it had never been made *)
From DRF Require Import Proofs.WriterMultiIdx Proofs.WriterMulti.

Theorem C05_never_rewritten_blocks_chunked : forall c ops, vcfg c -> c_chunk c = true ->
  Forall (fun op => first_nonneg (fst op)) ops ->
  refines c (fold_left (model_step_blocks c) ops init_state) (fold_left (spec_step_blocks c) ops spec_init).
Proof. exact writer_refines_blocks_chunked. Qed.
Print Assumptions C05_never_rewritten_blocks_chunked.

Theorem C05_rejected_blocks_change_nothing : forall c st s bl vec,
  refines c st s -> valid_arrays (w_gi st) (zlen vec) bl = false ->
  model_step_blocks c st (bl, vec) = st /\ spec_step_blocks c s (bl, vec) = s.
Proof. exact rejected_blocks_change_nothing. Qed.
Print Assumptions C05_rejected_blocks_change_nothing.

(* ---- histories.  Any history of public API calls (rf_write / rf_write_blocks in any mix, any mode,
   any arguments) behaves exactly like the same history with the refused calls (ValueError / IOError)
   taken out: the same final writer state -- files, cursor, counters -- and the same answer to every
   remaining call.  "Later valid writes behave as if the rejected call had never been made." *)
From DRF Require Import Model.PyWriter Proofs.PyApiHistory.

Theorem C05_refused_calls_leave_no_trace : forall c ops ps,
  fold_left (api_state c) (drop_refused c ps ops) ps = fold_left (api_state c) ops ps /\
  answers c ps (drop_refused c ps ops) =
    filter (fun r => negb ((fst r =? ValueError) || (fst r =? IOError))) (answers c ps ops).
Proof. exact refused_calls_leave_no_trace. Qed.
Print Assumptions C05_refused_calls_leave_no_trace.

(* ---- "a sample, once written, never changes value", along ANY history of public API calls in gapped
   mode (rf_write / rf_write_blocks in any mix, accepted or refused): whatever the files hold at index k
   after a prefix of the history, they hold after the whole history.  Spec level first (any mode's
   gapped Spec step; the continuous Spec is the same sequence of single-block steps). *)
From DRF Require Import Proofs.Counters.

Theorem C05_api_spec_never_rewritten : forall c ops1 ops2 k v, Forall api_arg_ok (ops1 ++ ops2) ->
  s_map (fold_left (api_spec_gapped c) ops1 spec_init) k = Some v ->
  s_map (fold_left (api_spec_gapped c) (ops1 ++ ops2) spec_init) k = Some v.
Proof. exact api_spec_never_rewritten_gapped. Qed.
Print Assumptions C05_api_spec_never_rewritten.

Theorem C05_api_sample_never_changes : forall c ops1 ops2 k v,
  vcfg c -> c_chunk c = true -> c_cont c = false -> Forall api_arg_ok (ops1 ++ ops2) ->
  lookup_st (p_w (fold_left (api_state c) ops1 py_init)) k = Some v ->
  lookup_st (p_w (fold_left (api_state c) (ops1 ++ ops2) py_init)) k = Some v.
Proof. exact api_sample_never_changes_gapped. Qed.
Print Assumptions C05_api_sample_never_changes.

(* continuous mode, un-chunked layout: what was written stays readable with its value (a slot that was
   never written reads as fill and may be written later); continuous mode with compression/checksums *)
Theorem C05_api_sample_never_changes_continuous_unchunked : forall c ops1 ops2 k v,
  vcfg c -> c_chunk c = false -> c_cont c = true -> Forall api_arg_ok (ops1 ++ ops2) ->
  s_map (fold_left (api_spec_cont c) ops1 spec_init) k = Some v ->
  lookup_st (p_w (fold_left (api_state c) ops1 py_init)) k = Some v /\
  lookup_st (p_w (fold_left (api_state c) (ops1 ++ ops2) py_init)) k = Some v.
Proof. exact api_sample_never_changes_continuous_unchunked. Qed.
Print Assumptions C05_api_sample_never_changes_continuous_unchunked.

Theorem C05_api_sample_never_changes_continuous_chunked : forall c ops1 ops2 k v,
  vcfg c -> c_chunk c = true -> c_cont c = true -> Forall api_arg_ok (ops1 ++ ops2) ->
  lookup_st (p_w (fold_left (api_state c) ops1 py_init)) k = Some v ->
  lookup_st (p_w (fold_left (api_state c) (ops1 ++ ops2) py_init)) k = Some v.
Proof. exact api_sample_never_changes_continuous_chunked. Qed.
Print Assumptions C05_api_sample_never_changes_continuous_chunked.

(* ---- the Python front end regenerated.  Gen/PyFront.v is produced on every run from the current
   source of DigitalRFWriter.rf_write / rf_write_blocks (translator T6): the resolution of next_sample,
   the not-in-the-past test, the chain of `if ...: raise ValueError` validations in their order, and the
   counter updates.  The hand model Model/PyWriter.v -- about which the theorems above speak -- is
   proved equal to it: rf_write as a whole, the validation chain of rf_write_blocks (it raises exactly
   when py_arrays_ok is false, with the first failing test deciding), and the accepted branch. *)
From DRF Require Import Gen.PyFront Proofs.PyFrontProofs.

Theorem C05_py_rf_write_is_the_regenerated_code : forall c ps ns vec,
  py_rf_write FromCursor c ps ns vec =
  let ns' := gen_resolve (p_next ps) ns in
  if gen_write_in_past (p_next ps) ns' then ((ValueError, 0), ps)
  else if p_closed ps then ((IOError, 0), ps)
  else let '(rc, w') := write_one c (p_w ps) ns' vec in
       if negb (rc =? 0) then ((RuntimeError, 0), mkPy (p_next ps) (p_written ps) (p_gap ps) false w')
       else let '(nx, wr, gp, ret) := gen_write_counters (p_next ps) (p_written ps) (p_gap ps) (w_gi w') (zlen vec) in
            ((OK, ret), mkPy nx wr gp false w').
Proof. exact py_rf_write_regen. Qed.
Print Assumptions C05_py_rf_write_is_the_regenerated_code.

Theorem C05_blocks_validation_is_the_regenerated_chain : forall next vlen G D, G <> [] -> D <> [] ->
  py_arrays_ok next vlen G D = negb (existsb (fun b => b) (gen_blocks_checks next vlen G D)).
Proof. exact blocks_checks_regen. Qed.
Print Assumptions C05_blocks_validation_is_the_regenerated_chain.

Theorem C05_blocks_first_failing_test_decides : forall c ps G D vec, G <> [] -> D <> [] ->
  py_arrays_ok (p_next ps) (zlen vec) G D = false ->
  py_rf_write_blocks c ps G D vec = ((ValueError, first_true (gen_blocks_checks (p_next ps) (zlen vec) G D) 1), ps).
Proof. exact blocks_first_failure_regen. Qed.
Print Assumptions C05_blocks_first_failing_test_decides.

(* ---- the C entry point regenerated.  Gen/WBlocksGen.v is the control skeleton of
   digital_rf_write_blocks_hdf5 extracted from the current C source (translator T11): the rejections in
   order with their return values, the per-file loop's condition, failure test and return values (and
   the fact that the loop body contains nothing else).  The model's write_blocks / write_loop are proved
   to be exactly that skeleton around write_samples_to_file. *)
From DRF Require Import Gen.WBlocksGen Proofs.WBlocksGenProofs.

Theorem C05_c_rejections_are_the_regenerated_ones : forall c st g0 d0 tl vec,
  write_blocks c st ((g0, d0) :: tl) vec =
  match first_rejection (gen_rejections (b2i (w_failed st)) false g0 (w_gi st) (b2i (c_cont c))
                                        (Z.of_nat (length ((g0, d0) :: tl)))) with
  | Some code => (code, st)
  | None => write_loop (S (length vec)) c st 0 ((g0, d0) :: tl) vec
  end.
Proof. exact write_blocks_rejections_regen. Qed.
Print Assumptions C05_c_rejections_are_the_regenerated_ones.

Theorem C05_c_loop_is_the_regenerated_one : forall fuel c st sw bl vec,
  write_loop (S fuel) c st sw bl vec =
  if gen_loop_cond sw (Z.of_nat (length vec)) then
    match write_samples_to_file c st sw bl vec with
    | (Fail, st') => (gen_loop_failure_code, st')
    | (Wrote k, st') => if gen_loop_failure k then (gen_loop_failure_code, st') else write_loop fuel c st' (sw + k) bl vec
    end
  else (gen_final_code, st).
Proof. exact write_loop_regen. Qed.
Print Assumptions C05_c_loop_is_the_regenerated_one.

(* digital_rf_get_global_sample (which index the next sample of a block description has) regenerated
   from the C source with its unsigned 64-bit arithmetic (translator T12) equals the transcription the
   model uses, on every input the writer can pass *)
From DRF Require Import Base.U64 Model.IndexCalc Gen.GgsGen Proofs.GgsGenProofs.

Theorem C05_get_global_sample_is_the_regenerated_code : forall sw bl, 0 <= sw -> Forall (row_ok sw) bl ->
  (match bl with (_, d0) :: _ => d0 <= sw | [] => True end) ->
  gen_get_global_sample sw bl = get_global_sample sw bl.
Proof. exact get_global_sample_regen. Qed.
Print Assumptions C05_get_global_sample_is_the_regenerated_code.

(* ---- T17: the sources this property rests on keep no state outside the objects the model has (no static locals
   or mutable globals in C, no class-level / module-level containers, `global` rebinding or cache decorators in
   Python): the list of such sites, regenerated from the sources on every run, is empty *)
From Coq Require Import String List.
From DRF Require Import Gen.StateSites Proofs.StateSitesProofs.
Theorem C05_no_state_outside_the_modelled_objects : state_sites_c_library = @nil string /\ state_sites_extension = @nil string /\ state_sites_rf_python = @nil string.
Proof. repeat split; first [exact no_state_outside_objects_c_library | exact no_state_outside_objects_extension | exact no_state_outside_objects_rf_python]. Qed.
Print Assumptions C05_no_state_outside_the_modelled_objects.
