(* C02 -- Kill-safe publication of data files.
   Property theorems only (each closed by `exact` of a lemma, followed by Print Assumptions).

   Setting (Base/Fs.v, Model/WriterProto.v): an abstract file system; the writer of
   c/lib/rf_write_hdf5.c as a generator of file-system operations for ANY recording (lists of
   per-file pieces with arbitrary numbers of low-level writes); a crash after i operations leaves
   [crash_state t i empty_fs].  [proto_ok pv t] is the executable acceptor of the publication
   protocol: the theorems below hold for EVERY accepted trace, the model's trace is proved accepted
   (C02_writer_obeys_protocol), and ./check C02 runs the extracted acceptor on the real writer's
   logged trace and compares that trace with the model's, operation by operation.
   Not modelled (assumed, tested on every snapshot): HDF5's internal flush order -- a file is
   unspecified until the close(2) that ends H5Fclose, whole afterwards; atomic rename / O_EXCL.

   pv = Staged is what the code does since the fix 2c89f97 (drf_properties.h5 written as
   tmp.drf_properties.h5 and renamed); pv = Direct is the code before it (created in place): the
   two clauses that fail for it are kept as _partial / _refuted. *)
From Coq Require Import ZArith List Bool String.
From DRF Require Import Base.Fs Model.WriterProto Proofs.ProtoSafety Proofs.WriterProtoProofs Proofs.ProtoReader.
From DRF Require Import Proofs.WriterFaultProofs Proofs.WriterProtoRestart.
Import ListNotations.
Local Open Scope Z_scope.

(* the writer model obeys the protocol, for every recording and both variants; it ends idle *)
Theorem C02_writer_obeys_protocol : forall v rc,
  proto_run (v_props v) PsStart empty_fs (trace_of v rc) = Some (PsIdle, w_fs (rs_w (wrun no_fault v rc))).
Proof. exact writer_obeys. Qed.
Print Assumptions C02_writer_obeys_protocol.

(* every data file visible under a final name at any crash point is complete, and has the same
   content at every later point (its bytes never change again) *)
Theorem C02_final_names_complete : forall pv t i j d k c,
  accepted pv t -> (i <= j)%nat ->
  crash_state t i empty_fs (PData d false k) = Some (File c) ->
  (exists tag, c = Complete tag) /\ crash_state t j empty_fs (PData d false k) = Some (File c).
Proof. exact final_names_complete. Qed.
Print Assumptions C02_final_names_complete.

(* whatever is in progress is confined to a tmp.-prefixed name *)
Theorem C02_in_progress_confined : confined_full Staged.
Proof. exact confined_staged. Qed.
Print Assumptions C02_in_progress_confined.

(* ... with in-place creation of the properties file: only while that file is whole ... *)
Theorem C02_in_progress_confined_partial : forall t i,
  accepted Direct t -> open_channel (crash_state t i empty_fs) = true ->
  forall p b, crash_state t i empty_fs p = Some (File (Partial b)) -> is_tmp_name (basename p) = true.
Proof. exact opens_direct_partial. Qed.
Print Assumptions C02_in_progress_confined_partial.

(* ... and not in general (witness: the state after the O_CREAT of drf_properties.h5) *)
Theorem C02_in_progress_confined_refuted : ~ confined_full Direct.
Proof. exact confined_direct_refuted. Qed.
Print Assumptions C02_in_progress_confined_refuted.

(* readers and listings ignore exactly the tmp paths: a listed name does not start with "tmp.",
   and no tmp path of the writer is ever listed *)
Theorem C02_tmp_ignored : forall s p,
  (listed s p = true -> is_tmp_name (basename p) = false /\ is_tmp_path p = false) /\
  (is_file_path p = true -> is_tmp_path p = true -> listed s p = false).
Proof. exact tmp_ignored. Qed.
Print Assumptions C02_tmp_ignored.

(* a reader pass on the tree a kill leaves does not fail and returns exactly the finalized files *)
Theorem C02_reader_after_kill : forall pv t i cands,
  accepted pv t ->
  exists l, read_pass (crash_state t i empty_fs) cands = Some l /\
    forall k tg, In (k, tg) l <->
      exists d, In (d, k) cands /\ crash_state t i empty_fs (PData d false k) = Some (File (Complete tg)).
Proof. exact reader_after_kill. Qed.
Print Assumptions C02_reader_after_kill.

(* the channel opens whenever its properties file exists *)
Theorem C02_channel_opens : opens_full Staged.
Proof. exact opens_staged. Qed.
Print Assumptions C02_channel_opens.

Theorem C02_channel_opens_refuted : ~ opens_full Direct.
Proof. exact opens_direct_refuted. Qed.
Print Assumptions C02_channel_opens_refuted.

(* after a clean close no tmp file remains ... *)
Theorem C02_clean_close_no_tmp : forall v rc p,
  is_tmp_path p = true -> state_after (trace_of v rc) empty_fs p = None.
Proof. exact clean_close_no_tmp. Qed.
Print Assumptions C02_clean_close_no_tmp.

(* ... and every file of a recording whose calls were all accepted is readable with its last image *)
Theorem C02_clean_close_all_readable : forall v rc cands d k tg,
  forallb (fun b => b) (rs_out (wrun no_fault v rc)) = true ->
  last_tag (all_parts rc) d k = Some tg -> In (d, k) cands ->
  exists l, read_pass (state_after (trace_of v rc) empty_fs) cands = Some l /\ In (k, tg) l.
Proof. exact after_close_sees_all. Qed.
Print Assumptions C02_clean_close_all_readable.

(* restart after a kill: a new writer session ([wrun_on s]: same code, started on the tree [s] the killed
   recorder left) whose first piece addresses the file period of a leftover tmp file: under ANY fault
   oracle and both variants the exclusive creation is refused, has_failure is set, every write of the
   session is refused and nothing appears or changes under a final name -- in particular the leftover
   file is never renamed (the close takes the has_failure branch and removes it: Example
   restart_removes_leftover in Proofs/WriterProtoRestart.v) *)
Theorem C02_restart_over_stale_tmp : forall F v rc s fp rest cs c,
  r_calls rc = (fp :: rest) :: cs ->
  open_channel s = true ->
  s (PData (fp_d fp) true (fp_k fp)) = Some (File c) ->
  s (PData (fp_d fp) false (fp_k fp)) = None ->
  let r := wrun_on s F v rc in
  rs_init r = true /\ rs_out r = map (fun _ => false) (r_calls rc) /\ w_hf (rs_w r) = true /\
  forall d k, w_fs (rs_w r) (PData d false k) = s (PData d false k).
Proof. exact restart_over_stale_tmp. Qed.
Print Assumptions C02_restart_over_stale_tmp.

(* ---- T17: the sources this property rests on keep no state outside the objects the model has (no static locals
   or mutable globals in C, no class-level / module-level containers, `global` rebinding or cache decorators in
   Python): the list of such sites, regenerated from the sources on every run, is empty *)
From Coq Require Import String List.
From DRF Require Import Gen.StateSites Proofs.StateSitesProofs.
Theorem C02_no_state_outside_the_modelled_objects : state_sites_c_library = @nil string /\ state_sites_extension = @nil string /\ state_sites_rf_python = @nil string /\ state_sites_listing = @nil string.
Proof. repeat split; first [exact no_state_outside_objects_c_library | exact no_state_outside_objects_extension | exact no_state_outside_objects_rf_python | exact no_state_outside_objects_listing]. Qed.
Print Assumptions C02_no_state_outside_the_modelled_objects.
