(* C15 placeholder while the correspondence is brought up *)
From Coq Require Import ZArith.
From DRF Require Import Model.Events.
