(* C15 -- Live event filter agrees with listing; finalizing rename is a creation.
   Property theorems only; each is closed by `exact` of a lemma and followed by Print Assumptions.

   Model: Model/Events.v (regex selection from the include flags, `dispatch`), over the path
   patterns e_re_* that translate/re2gallina.py regenerates from the imported package on every run
   (Gen/Grammar.v), matched by the backtracking matcher of Base/Regex.v (proved sound and complete
   w.r.t. its declarative semantics in Base/RegexSound.v).  `listable f st en p` (Model/PathSpec.v)
   is the component-wise Spec "a listing with flags f and window [st, en] lists a finalized file at
   p inside a channel directory of some kind, forward-fill file aside" over the listing's own
   regenerated patterns l_re_*; Properties/C14.v ties it to the listing model.

   The property is bounded ("exhaustive over that bounded grammar"): the *_bounded theorems are a
   COMPLETE enumeration inside Coq (vm_compute of a forallb, lifted by forallb_forall) of
   Model/EventsUniverse.v: 783 paths (3 channel paths x 9 subdirectory variants x 29 file
   variants) x 5 move destinations x 36 flag combinations x 81 windows (times at and 1 ms around
   the file times).  The other theorems hold for ALL paths / names; those about the full-path
   patterns assume `no_ts_ancestor d`: the directory d of the file has no timestamped directory
   strictly above its last component ("files at the format's depth"; decidable:
   no_ts_ancestor_b_sound). *)
From Coq Require Import ZArith List Bool.
From DRF Require Import Base.Regex Base.WordLit Gen.Grammar Model.PathSpec Model.Events Model.EventsUniverse
  Proofs.GrammarProofs Proofs.PathSpecProofs Proofs.EventsProofs Proofs.EventPathProofs.
Import ListNotations.
Local Open Scope Z_scope.

(* created / modified / deleted of a path of the universe inside the claim (lower-case fixed parts,
   possible date): the constructor raises iff nothing is included; otherwise the event is delivered
   unchanged exactly when the path is listable with the same flags and window, else dropped *)
Theorem C15_accept_iff_listed_bounded : forall p f w k,
  In (p, true) u_paths -> In f u_flags -> In w u_windows ->
  dispatch f (fst w) (snd w) (file_event k p) =
    if nothing_included f then None
    else Some (if listable f (fst w) (snd w) p then Deliver k p [] else Dropped).
Proof. exact accept_iff_listed_bounded. Qed.
Print Assumptions C15_accept_iff_listed_bounded.

(* a move between two paths of the universe: deletion of the source when only the source is
   listable, creation of the destination when only the destination is, each judged on its own
   time; dropped when neither (expected_moved, Proofs/EventsProofs.v) *)
Theorem C15_moved_bounded : forall p q c f w,
  In (p, true) u_paths -> In (q, c) (u_moves p) -> In f u_flags -> In w u_windows ->
  dispatch f (fst w) (snd w) (moved p q) =
    if nothing_included f then None
    else Some (render (moved p q) (expected_moved f (fst w) (snd w) (linfo_of p) (linfo_of q))).
Proof. exact moved_bounded. Qed.
Print Assumptions C15_moved_bounded.

(* never a directory: for every event, pattern list and window *)
Theorem C15_never_directory : forall rs st en mt ev,
  ev_dir ev = true -> dispatch_rs rs st en mt ev = Dropped.
Proof. exact dir_event_dropped. Qed.
Print Assumptions C15_never_directory.

(* never a tmp. file (universe) *)
Theorem C15_never_tmp_bounded : forall d base f w k,
  In (d ++ sep :: base, true) u_paths -> ~ In sep base -> starts_with (W "tmp.") base = true ->
  In f u_flags -> In w u_windows -> nothing_included f = false ->
  dispatch f (fst w) (snd w) (file_event k (d ++ sep :: base)) = Some Dropped.
Proof. exact never_tmp_bounded. Qed.
Print Assumptions C15_never_tmp_bounded.

(* ... and the listing side of the agreement for ALL directories and names: a name starting with
   tmp. is never listable, and never matches any of the listing's file patterns *)
Theorem C15_listable_never_tmp : forall f st en d base,
  ~ In sep base -> starts_with (W "tmp.") base = true -> listable f st en (d ++ sep :: base) = false.
Proof. exact listable_never_tmp. Qed.
Print Assumptions C15_listable_never_tmp.

Theorem C15_data_file_never_tmp : forall r s,
  r = l_re_drffile \/ r = l_re_dmdfile \/ r = l_re_file ->
  starts_with (W "tmp.") s = true -> rmatch false r s = None.
Proof. exact data_file_never_tmp. Qed.
Print Assumptions C15_data_file_never_tmp.

(* the writer's finalizing rename d/tmp.b -> d/b is the creation of d/b (universe) *)
Theorem C15_finalize_is_creation_bounded : forall d b f w,
  In (d ++ sep :: W "tmp." ++ b, true) u_paths -> ~ In sep b ->
  In f u_flags -> In w u_windows -> nothing_included f = false ->
  dispatch f (fst w) (snd w) (moved (d ++ sep :: W "tmp." ++ b) (d ++ sep :: b)) =
    Some (if listable f (fst w) (snd w) (d ++ sep :: b) then Deliver Created (d ++ sep :: b) [] else Dropped).
Proof. exact finalize_is_creation_bounded. Qed.
Print Assumptions C15_finalize_is_creation_bounded.

(* ... and for ALL paths, given only how the two names classify: source matched by no selected
   pattern, destination matched -> FileCreatedEvent(destination), judged on the destination's time *)
Theorem C15_finalize_is_creation : forall rs st en p q ti,
  q <> [] -> classify rs p = None -> classify rs q = Some ti -> ti <> BadInt ->
  dispatch_rs rs st en true (moved p q) = if window_ok st en ti then Deliver Created q [] else Dropped.
Proof. exact finalize_is_creation_core. Qed.
Print Assumptions C15_finalize_is_creation.

(* a rename of a tracked file to a name no pattern matches is its deletion, for ALL paths *)
Theorem C15_rename_away_is_deletion : forall rs st en p q ti,
  q <> [] -> classify rs p = Some ti -> classify rs q = None -> ti <> BadInt ->
  dispatch_rs rs st en true (moved p q) = if window_ok st en ti then Deliver Deleted p [] else Dropped.
Proof. exact rename_away_is_deletion_core. Qed.
Print Assumptions C15_rename_away_is_deletion.

(* the window is inclusive on the captured name time and is the only thing besides the patterns
   that decides, for ALL paths; no captured time (properties files) -> no window check *)
Theorem C15_window_inclusive : forall rs st en k p,
  dispatch_rs rs st en true (file_event k p) =
  match classify rs p with
  | None => Dropped
  | Some BadInt => Raises
  | Some ti => if window_ok st en ti then Deliver k p [] else Dropped
  end.
Proof. exact single_event. Qed.
Print Assumptions C15_window_inclusive.

(* the constructor raises ValueError exactly when no kind is included *)
Theorem C15_valueerror_iff_nothing_included : forall f,
  select_regexes f = [] <-> (inc_drf f || inc_dmd f || eff_drfp f || eff_dmdp f) = false.
Proof. exact select_empty_iff. Qed.
Print Assumptions C15_valueerror_iff_nothing_included.

(* int() never sees a non-number, also outside the claim (universe) *)
Theorem C15_never_raises_bounded : forall p claim f w k,
  In (p, claim) u_paths -> In f u_flags -> In w u_windows ->
  dispatch f (fst w) (snd w) (file_event k p) <> Some Raises.
Proof. exact never_raises_bounded. Qed.
Print Assumptions C15_never_raises_bounded.

(* documented behaviour the statement does not cover: when BOTH names match, the event stays a move
   and only the destination's time is compared with the window *)
Theorem C15_moved_both_match_uses_dest_time : forall rs st en p q tp tq,
  q <> [] -> classify rs p = Some tp -> classify rs q = Some tq -> tq <> BadInt ->
  dispatch_rs rs st en true (moved p q) = if window_ok st en tq then Deliver Moved p q else Dropped.
Proof. exact moved_both_match_uses_dest_time. Qed.
Print Assumptions C15_moved_both_match_uses_dest_time.

(* never a tmp. file, for ALL directories at the format's depth, ALL names, flags, windows and
   event kinds: none of the six regenerated path patterns matches d/tmp.x *)
Theorem C15_never_tmp : forall f st en k d base,
  ~ In sep base -> starts_with (W "tmp.") base = true -> no_ts_ancestor d ->
  accepts f st en k (d ++ sep :: base) = false.
Proof. exact never_tmp_unbounded. Qed.
Print Assumptions C15_never_tmp.

Theorem C15_event_patterns_never_tmp : forall x d base,
  ~ In sep base -> starts_with (W "tmp.") base = true -> no_ts_ancestor d ->
  rmatch events_ci (re_of x) (d ++ sep :: base) = None.
Proof. exact event_patterns_never_tmp. Qed.
Print Assumptions C15_event_patterns_never_tmp.

(* the writer's finalizing rename d/tmp.b -> d/b, for ALL such paths: delivered as the creation of
   d/b exactly when the filter accepts d/b (some selected pattern matches it and its captured time
   lies in the inclusive window), dropped otherwise *)
Theorem C15_finalize_is_creation_unbounded : forall f st en d b ti,
  ~ In sep b -> no_ts_ancestor d -> select_regexes f <> [] ->
  classify (select_regexes f) (d ++ sep :: b) = Some ti -> ti <> BadInt ->
  dispatch f st en (moved (d ++ sep :: W "tmp." ++ b) (d ++ sep :: b)) =
    Some (if window_ok st en ti then Deliver Created (d ++ sep :: b) [] else Dropped).
Proof. exact finalize_is_creation_unbounded. Qed.
Print Assumptions C15_finalize_is_creation_unbounded.

(* the hypothesis is decidable *)
Theorem C15_no_ts_ancestor_decidable : forall d, no_ts_ancestor_b d = true -> no_ts_ancestor d.
Proof. exact no_ts_ancestor_b_sound. Qed.
Print Assumptions C15_no_ts_ancestor_decidable.

(* ---- T19: the handler model above IS the code: DigitalRFEventHandler.__init__ (pattern list from the include flags,
   defaults, ignore_directories) and dispatch (directories, the two path classifications keeping the last matching
   pattern, the rewriting of a move, int(group("secs")) / int(group("frac")) / timedelta, the window comparisons),
   regenerated statement by statement from watchdog_drf.py on every run, equal the hand model the theorems of
   this file are about -- for every flag set, window and event *)
From DRF Require Import Gen.DispatchGen Proofs.DispatchGenProofs.
Theorem C15_dispatch_is_the_regenerated_code : forall f st en ev,
  gen_handler (inc_drf f) (inc_dmd f) (inc_drfp f) (inc_dmdp f) st en ev = dispatch f st en ev.
Proof. exact handler_regen. Qed.
Print Assumptions C15_dispatch_is_the_regenerated_code.

Theorem C15_dispatch_body_is_the_regenerated_code : forall rs st en mt ev,
  gen_dispatch_rs rs st en mt ev = dispatch_rs rs st en mt ev.
Proof. exact dispatch_rs_regen. Qed.
Print Assumptions C15_dispatch_body_is_the_regenerated_code.

Theorem C15_event_time_is_the_regenerated_code : forall c, gen_time_of c = time_of c.
Proof. exact gen_time_of_regen. Qed.
Print Assumptions C15_event_time_is_the_regenerated_code.

(* ---- T17: the sources this property rests on keep no state outside the objects the model has (no static locals
   or mutable globals in C, no class-level / module-level containers, `global` rebinding or cache decorators in
   Python): the list of such sites, regenerated from the sources on every run, is empty *)
From Coq Require Import String List.
From DRF Require Import Gen.StateSites Proofs.StateSitesProofs.
Theorem C15_no_state_outside_the_modelled_objects : state_sites_listing = @nil string /\ state_sites_events = @nil string.
Proof. repeat split; first [exact no_state_outside_objects_listing | exact no_state_outside_objects_events]. Qed.
Print Assumptions C15_no_state_outside_the_modelled_objects.
