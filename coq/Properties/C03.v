(* C03 -- Exact sample-index <-> time conversion.
   Property theorems only; each is closed by `exact` of a lemma of Proofs/TimeConvProofs.v and
   followed by Print Assumptions.  The functions named digital_rf_* are the Gallina terms that
   translate/c2gallina.py regenerates from c/lib/rf_write_hdf5.c on every run (64-bit wrap-around
   arithmetic explicit), so these statements are re-checked against the current C text. *)
From Coq Require Import ZArith.
From DRF Require Import Base.U64 Base.DivLemmas Base.Civil Gen.TimeConvGen Proofs.TimeConvProofs.
Local Open Scope Z_scope.

(* index -> (second, picosecond) is exactly (floor(k*d/n), floor(frac * 10^12)), status 0, for
   0 <= k < 2^63, 0 < n < 2^32, 0 < d <= 10^9, k*d/n before year 9999 *)
Theorem C03_floor_exact : forall k n d,
  0 <= k < 2 ^ 63 /\ 0 < n < 2 ^ 32 /\ 0 < d <= 10 ^ 9 /\ k * d / n < 253402300800 ->
  digital_rf_get_timestamp_floor k n d = (0, k * d / n, ((k * d) mod n) * 10 ^ 12 / n).
Proof. exact ts_floor_exact. Qed.
Print Assumptions C03_floor_exact.

(* monotone in the index (lexicographic on (second, picosecond)) *)
Theorem C03_floor_monotone : forall k k' n d, Dom k n d -> Dom k' n d -> k <= k' ->
  let '(_, s, p) := digital_rf_get_timestamp_floor k n d in
  let '(_, s', p') := digital_rf_get_timestamp_floor k' n d in
  s < s' \/ (s = s' /\ p <= p').
Proof. exact ts_floor_monotone. Qed.
Print Assumptions C03_floor_monotone.

(* (second, picosecond) -> index is exactly ceil((s + p*10^-12) * n / d) whenever that fits 64 bits *)
Theorem C03_ceil_exact : forall s p n d,
  0 <= s -> 0 <= p < 10 ^ 12 -> 0 < n < 2 ^ 32 -> 0 < d <= 10 ^ 9 ->
  cdiv ((s * 10 ^ 12 + p) * n) (d * 10 ^ 12) < 2 ^ 64 ->
  digital_rf_get_sample_ceil s p n d = (0, cdiv ((s * 10 ^ 12 + p) * n) (d * 10 ^ 12)).
Proof. exact sample_ceil_exact. Qed.
Print Assumptions C03_ceil_exact.

(* converting a floored timestamp back returns the index when one sample period >= 1 ps *)
Theorem C03_roundtrip : forall k n d, Dom k n d -> n <= d * 10 ^ 12 ->
  let '(_, s, p) := digital_rf_get_timestamp_floor k n d in
  digital_rf_get_sample_ceil s p n d = (0, k).
Proof. exact ceil_floor_roundtrip. Qed.
Print Assumptions C03_roundtrip.

(* calendar breakdown (model of gmtime) loses nothing: it is inverted by unix_of_parts *)
Theorem C03_calendar_bijective : forall t, 0 <= t -> unix_of_parts (time_parts t) = t.
Proof. exact civil_roundtrip. Qed.
Print Assumptions C03_calendar_bijective.

(* the whole public conversion: calendar fields of floor(k*d/n) and the floored picoseconds *)
Theorem C03_unix_time_rational : forall k n d, Dom k n d ->
  digital_rf_get_unix_time_rational k n d =
    (let '(y, mo, dd, hh, mi, ss) := time_parts (k * d / n) in
     (0, y, mo, dd, hh, mi, ss, ((k * d) mod n) * 10 ^ 12 / n)).
Proof. exact unix_time_rational_exact. Qed.
Print Assumptions C03_unix_time_rational.

(* digital_rf_get_time_parts, which the regenerated code above calls, is itself checked on every run
   (translator T13): it must take its broken-down time from gmtime(&unix_second) -- UTC, not the local
   zone, not home-made arithmetic -- and add the constants of the regenerated table; the hand model
   Model/TimeParts.v used above is that table applied to libc's gmtime (Base/Civil.v) *)
From Coq Require Import List.
Import ListNotations.
From DRF Require Import Model.TimeParts Gen.TimePartsGen Proofs.TimePartsGenProofs.

Theorem C03_time_parts_is_gmtime_plus_the_regenerated_table : forall t,
  let '(rc, y, m, d, hh, mm, ss) := digital_rf_get_time_parts t in
  rc = 0 /\ gen_time_parts t = [y; m; d; hh; mm; ss].
Proof. exact time_parts_regen. Qed.
Print Assumptions C03_time_parts_is_gmtime_plus_the_regenerated_table.

(* ---- T17: the sources this property rests on keep no state outside the objects the model has (no static locals
   or mutable globals in C, no class-level / module-level containers, `global` rebinding or cache decorators in
   Python): the list of such sites, regenerated from the sources on every run, is empty *)
From Coq Require Import String List.
From DRF Require Import Gen.StateSites Proofs.StateSitesProofs.
Theorem C03_no_state_outside_the_modelled_objects : state_sites_c_library = @nil string /\ state_sites_extension = @nil string /\ state_sites_rf_python = @nil string.
Proof. repeat split; first [exact no_state_outside_objects_c_library | exact no_state_outside_objects_extension | exact no_state_outside_objects_rf_python]. Qed.
Print Assumptions C03_no_state_outside_the_modelled_objects.
