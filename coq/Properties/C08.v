(* C08 -- Reader query coherence (and the reader half of C01).
   Property theorems only; each is closed by `exact` of a lemma of Proofs/ReaderProofs.v (or
   Base/Runs.v) and followed by Print Assumptions.

   The reader is the hand model Model/ReaderCore.v of python/digital_rf/digital_rf_hdf5.py, tied
   to the source on every run by the correspondence of harness/props/c08.py (real writer ->
   raw h5py read of every file -> same queries on DigitalRFReader and on the extracted model).
   `files_abs fs : Z -> option V` is what the files on disk say (index rows + data);
   `runs m s e` is the read Spec: the canonical block list (non-empty, ascending, strictly
   separated blocks) whose denotation is `m` restricted to [s, e].
   `FilesInv c fs`: every file has a non-empty index starting at offset 0, offsets strictly
   increasing and inside rf_data, rows not overlapping, all samples inside the file's time window
   [ceil(ms*n/(1000 d)), ceil((ms+fc)*n/(1000 d))), file time a multiple of the file cadence, the
   file in the subdirectory of its time, files listed in ascending time.  It is decidable
   (`files_inv_b`) and is checked on every channel the real writer produces.

   Defect sites are model parameters (DESIGN 2.6): `ExactRational | LongDouble` for
   `_get_file_list`, `SqueezeAxis1 | SqueezeAll` for `read_vector_raw`.  The full statements are
   proved for the variants the repaired code implements; for the variants of the code before
   the `fix:` commits there are `_partial` theorems under an explicit guard and `_refuted`
   theorems closed by vm_compute on a witness. *)
From Coq Require Import ZArith List.
From Coq Require Import Permutation.
From DRF Require Import Base.DivLemmas Base.Runs Model.Ld80 Model.ReaderCore Proofs.ReaderProofs Proofs.ReaderMultiProofs.
Import ListNotations.
Local Open Scope Z_scope.

(* ---- the Spec is well defined: `runs` is canonical, denotes the restriction, and is the only such list *)
Theorem C08_spec_runs : forall (V : Type) (m : Z -> option V) s e,
  canon (runs m s e) /\ forall k, den (runs m s e) k = restrict m s e k.
Proof. exact (@runs_is_runs). Qed.
Print Assumptions C08_spec_runs.

Theorem C08_spec_runs_unique : forall (V : Type) (m : Z -> option V) s e r,
  canon r -> (forall k, den r k = restrict m s e k) -> r = runs m s e.
Proof. exact (@runs_unique). Qed.
Print Assumptions C08_spec_runs_unique.

(* ---- the invariant is decidable by the extracted checker *)
Theorem C08_files_inv_checker_sound : forall (V : Type) c (fs : list (rfile V)),
  files_inv_b c fs = true -> FilesInv c fs.
Proof. exact (@files_inv_b_sound). Qed.
Print Assumptions C08_files_inv_checker_sound.

(* ---- every file holding an index of [s, e] is a candidate of the file lookup *)
Theorem C08_file_list_complete : forall (V : Type) c (fs : list (rfile V)) f s e k,
  FilesInv c fs -> In f fs -> file_abs f k <> None -> s <= k <= e ->
  In (file_sub f, file_ms f) (get_file_list ExactRational c s e).
Proof. exact (@file_list_complete). Qed.
Print Assumptions C08_file_list_complete.

(* ---- reading = the runs of the recording in the range (reader half of C01_roundtrip) *)
Theorem C08_reader_refines : forall (V : Type) c (fs : list (rfile V)) s e,
  FilesInv c fs -> read ExactRational c fs s e = runs (files_abs fs) s e.
Proof. exact (@reader_refines). Qed.
Print Assumptions C08_reader_refines.

(* ---- block lengths reported without reading data = lengths of the blocks read *)
Theorem C08_lengths_agree : forall (V : Type) c (fs : list (rfile V)) s e,
  FilesInv c fs -> get_continuous_blocks ExactRational c fs s e = lens (read ExactRational c fs s e).
Proof. exact (@lengths_agree). Qed.
Print Assumptions C08_lengths_agree.

(* ---- reading a range = merge of reading any split of it into adjacent sub-ranges *)
Theorem C08_split_invariance : forall (V : Type) c (fs : list (rfile V)) s k e,
  FilesInv c fs -> s <= k < e ->
  read ExactRational c fs s e
  = merge (read ExactRational c fs s k) (read ExactRational c fs (k + 1) e).
Proof. exact (@split_invariance). Qed.
Print Assumptions C08_split_invariance.

(* ---- selecting a subchannel = taking that column of the full read *)
Theorem C08_subchannel_is_column : forall (V : Type) c (W : Type) (sel : V -> W) (fs : list (rfile V)) s e,
  FilesInv c fs -> read_sel sel ExactRational c fs s e = map (bmap sel) (read ExactRational c fs s e).
Proof. exact (@subchannel_is_column). Qed.
Print Assumptions C08_subchannel_is_column.

(* ---- the reported bounds are the first and last index of the recording, and of any read *)
Theorem C08_bounds_are_extremes : forall (V : Type) c (fs : list (rfile V)), FilesInv c fs ->
  (fs = [] -> get_bounds fs = (None, None)) /\
  (fs <> [] -> exists a b, get_bounds fs = (Some a, Some b) /\
      files_abs fs a <> None /\ files_abs fs b <> None /\
      (forall k, files_abs fs k <> None -> a <= k <= b) /\
      (forall s e blk, In blk (read ExactRational c fs s e) -> a <= fst blk /\ bend blk - 1 <= b) /\
      (forall s e, s <= a <= e -> den (read ExactRational c fs s e) a <> None) /\
      (forall s e, s <= b <= e -> den (read ExactRational c fs s e) b <> None)).
Proof. exact (@bounds_are_extremes). Qed.
Print Assumptions C08_bounds_are_extremes.

(* ---- vector read of a fully covered range: exactly the requested samples, shape (L,) / (L, N),
        for every L >= 1 (including 1 and the number of subchannels) *)
Theorem C08_vector_exact : forall (V W : Type) c (sel : V -> W) is_sub nsub (fs : list (rfile V)) s L,
  FilesInv c fs -> 1 <= L ->
  (forall k, s <= k <= s + (L - 1) -> files_abs fs k <> None) ->
  exists vs, read_vector_raw SqueezeAxis1 sel is_sub nsub ExactRational c fs s L
             = VOk (vdims is_sub nsub L) vs /\
             Z.of_nat (length vs) = L /\
             forall i, 0 <= i < L -> nth_error vs (Z.to_nat i) = option_map sel (files_abs fs (s + i)).
Proof. exact (@vector_exact). Qed.
Print Assumptions C08_vector_exact.

(* ---- any requested index missing: I/O error, never partial or shifted data *)
Theorem C08_vector_fails_closed : forall (V W : Type) c (sel : V -> W) is_sub nsub (fs : list (rfile V)) s L,
  FilesInv c fs ->
  L < 1 \/ (exists k, s <= k <= s + (L - 1) /\ files_abs fs k = None) ->
  read_vector_raw SqueezeAxis1 sel is_sub nsub ExactRational c fs s L = VIOError.
Proof. exact (@vector_fails_closed). Qed.
Print Assumptions C08_vector_fails_closed.

(* ---- per-sample properties come from the file that holds the sample *)
Theorem C08_properties_of_sample : forall (V : Type) c, cfg_ok c ->
  forall (fs : list (rfile V)) f k, FilesInv c fs -> In f fs -> file_abs f k <> None ->
  properties_file ExactRational c fs k = PFile f.
Proof. exact (@properties_of_sample). Qed.
Print Assumptions C08_properties_of_sample.

(* ---- the whole statement at once, for the repaired code; refuted for either old variant *)
Theorem C08_full_fixed : C08_full ExactRational SqueezeAxis1.
Proof. exact C08_full_holds. Qed.
Print Assumptions C08_full_fixed.

Theorem C08_full_refuted_longdouble : forall sq, ~ C08_full LongDouble sq.
Proof. exact ReaderProofs.C08_full_refuted_longdouble. Qed.
Print Assumptions C08_full_refuted_longdouble.

Theorem C08_full_refuted_squeeze_all : forall lk, ~ C08_full lk SqueezeAll.
Proof. exact ReaderProofs.C08_full_refuted_squeeze_all. Qed.
Print Assumptions C08_full_refuted_squeeze_all.

(* ---- code before fix 28f2d2e (long-double file lookup): partial under the guard that the
        floating-point times of both range ends equal the exact ones; refuted by the witness
        10^6/3 Hz, 400 ms files, k = 500000000800000 (float 1500000002399 ms, exact ...400) *)
Theorem C08_reader_refines_partial_longdouble : forall (V : Type) c (fs : list (rfile V)) s e,
  FilesInv c fs -> lookup_agrees c s e = true ->
  read LongDouble c fs s e = runs (files_abs fs) s e.
Proof. exact (@reader_refines_partial_longdouble). Qed.
Print Assumptions C08_reader_refines_partial_longdouble.

Theorem C08_file_list_complete_refuted_longdouble :
  exists c (fs : list (rfile (list Z))) f s e k,
    FilesInv c fs /\ In f fs /\ file_abs f k <> None /\ s <= k <= e /\
    ~ In (file_sub f, file_ms f) (get_file_list LongDouble c s e).
Proof. exact file_list_complete_refuted_longdouble. Qed.
Print Assumptions C08_file_list_complete_refuted_longdouble.

Theorem C08_reader_refines_refuted_longdouble :
  exists c (fs : list (rfile (list Z))) s e,
    FilesInv c fs /\ read LongDouble c fs s e <> runs (files_abs fs) s e.
Proof. exact reader_refines_refuted_longdouble. Qed.
Print Assumptions C08_reader_refines_refuted_longdouble.

Theorem C08_split_invariance_refuted_longdouble :
  exists c (fs : list (rfile (list Z))) s k e,
    FilesInv c fs /\ s <= k < e /\
    read LongDouble c fs s e <> merge (read LongDouble c fs s k) (read LongDouble c fs (k + 1) e).
Proof. exact split_invariance_refuted_longdouble. Qed.
Print Assumptions C08_split_invariance_refuted_longdouble.

(* ---- code before fix 5435e70 (z.squeeze() then len(z)): partial for L > 1; refuted at L = 1
        (TypeError / IOError on an existing sample) and at L = number of subchannels with only
        the first sample present (the subchannel values returned as if they were samples) *)
Theorem C08_vector_exact_partial_squeeze_all :
  forall (V W : Type) c (sel : V -> W) is_sub nsub (fs : list (rfile V)) s L,
  FilesInv c fs -> 1 < L ->
  (forall k, s <= k <= s + (L - 1) -> files_abs fs k <> None) ->
  exists vs, read_vector_raw SqueezeAll sel is_sub nsub ExactRational c fs s L
             = VOk (vdims is_sub nsub L) vs /\
             Z.of_nat (length vs) = L /\
             forall i, 0 <= i < L -> nth_error vs (Z.to_nat i) = option_map sel (files_abs fs (s + i)).
Proof. exact (@vector_exact_partial_squeeze_all). Qed.
Print Assumptions C08_vector_exact_partial_squeeze_all.

Theorem C08_vector_exact_refuted_squeeze_all :
  exists c (fs : list (rfile (list Z))) s L,
    FilesInv c fs /\ 1 <= L /\ (forall k, s <= k <= s + (L - 1) -> files_abs fs k <> None) /\
    read_vector_raw SqueezeAll (fun r => [nth 0 r 0]) true 2 ExactRational c fs s L = VTypeError /\
    read_vector_raw SqueezeAll (fun r => r) false 2 ExactRational c fs s L = VIOError.
Proof. exact vector_exact_refuted_squeeze_all. Qed.
Print Assumptions C08_vector_exact_refuted_squeeze_all.

Theorem C08_vector_fails_closed_refuted_squeeze_all :
  exists c (fs : list (rfile (list Z))) s L,
    FilesInv c fs /\ files_abs fs (s + 1) = None /\ s <= s + 1 <= s + (L - 1) /\
    read_vector_raw SqueezeAll (fun r => r) false 2 ExactRational c fs s L = VOk [2] [[38; 39]].
Proof. exact vector_fails_closed_refuted_squeeze_all. Qed.
Print Assumptions C08_vector_fails_closed_refuted_squeeze_all.

(* ================================================================== several top-level directories
   (the reading side of C11).  `dirs_ok c dirs`: every directory satisfies FilesInv and no file
   period is recorded in two directories (NoDup of all file times); decidable by `dirs_ok_b`.
   `dirs_abs dirs k` = what any directory says about index k (first directory that has it; under
   dirs_ok at most one has).  The implementation puts the pieces of every directory into one dict,
   sorts by key and merges adjacent pieces, so the result IS the canonical `runs` of the union:
   blocks that are adjacent across directories are merged. *)

Theorem C08_multi_dirs_ok_checker_sound : forall (V : Type) c (dirs : list (list (rfile V))),
  dirs_ok_b c dirs = true -> dirs_ok c dirs.
Proof. exact (@dirs_ok_b_sound). Qed.
Print Assumptions C08_multi_dirs_ok_checker_sound.

(* the union recording is what any one of the files says, independent of the directory order *)
Theorem C08_multi_union_map : forall (V : Type) c (dirs : list (list (rfile V))) k v, dirs_ok c dirs ->
  (dirs_abs dirs k = Some v <-> exists f, In f (concat dirs) /\ file_abs f k = Some v).
Proof. exact (@dirs_abs_char). Qed.
Print Assumptions C08_multi_union_map.

(* (1) reading several directories = the runs of the union of all sessions' samples *)
Theorem C08_multi_reader_refines : forall (V : Type) c (dirs : list (list (rfile V))) s e,
  dirs_ok c dirs ->
  read_multi (fun v => v) ExactRational c dirs s e = runs (dirs_abs dirs) s e.
Proof. exact (@reader_multi_refines). Qed.
Print Assumptions C08_multi_reader_refines.

Theorem C08_multi_subchannel_is_column : forall (V : Type) c (W : Type) (sel : V -> W)
  (dirs : list (list (rfile V))) s e, dirs_ok c dirs ->
  read_multi sel ExactRational c dirs s e
  = map (bmap sel) (read_multi (fun v => v) ExactRational c dirs s e).
Proof. exact (@reader_multi_column). Qed.
Print Assumptions C08_multi_subchannel_is_column.

Theorem C08_multi_lengths_agree : forall (V : Type) c (dirs : list (list (rfile V))) s e,
  dirs_ok c dirs ->
  get_continuous_blocks_multi ExactRational c dirs s e
  = lens (read_multi (fun v => v) ExactRational c dirs s e).
Proof. exact (@lengths_agree_multi). Qed.
Print Assumptions C08_multi_lengths_agree.

(* one directory: nothing changes *)
Theorem C08_multi_single : forall (V : Type) c (fs : list (rfile V)) s e,
  read_multi (fun v => v) ExactRational c [fs] s e = read ExactRational c fs s e.
Proof. exact (@reader_multi_single). Qed.
Print Assumptions C08_multi_single.

(* (2) the merged bounds are (min, max) of the union recording's domain; (None, None) iff it is
   empty; needs only FilesInv of every directory *)
Theorem C08_multi_bounds_are_extremes : forall (V : Type) c (dirs : list (list (rfile V))),
  Forall (FilesInv c) dirs ->
  match get_bounds_multi dirs with
  | (Some a, Some b) => dirs_abs dirs a <> None /\ dirs_abs dirs b <> None /\
                        forall k, dirs_abs dirs k <> None -> a <= k <= b
  | (None, None) => forall k, dirs_abs dirs k = None
  | _ => False
  end.
Proof. exact (@bounds_multi_are_extremes). Qed.
Print Assumptions C08_multi_bounds_are_extremes.

(* (3) neither depends on the order in which the directories are given to the reader *)
Theorem C08_multi_read_order_independent : forall (V : Type) c (dirs dirs' : list (list (rfile V))) s e,
  Permutation dirs dirs' -> dirs_ok c dirs ->
  read_multi (fun v => v) ExactRational c dirs s e = read_multi (fun v => v) ExactRational c dirs' s e.
Proof. exact (@reader_multi_order). Qed.
Print Assumptions C08_multi_read_order_independent.

Theorem C08_multi_bounds_order_independent : forall (V : Type) c (dirs dirs' : list (list (rfile V))),
  Permutation dirs dirs' -> Forall (FilesInv c) dirs ->
  get_bounds_multi dirs = get_bounds_multi dirs'.
Proof. exact (@bounds_multi_order). Qed.
Print Assumptions C08_multi_bounds_order_independent.

(* ---- the hypothesis FilesInv of the theorems above is not an assumption about well-behaved data: it
   holds for the files of every channel the writer (model of C01/C05/C06) produces by ANY history of
   public API calls, in every mode -- so every coherence theorem of this file applies to every
   recording made with DigitalRFWriter.  (Configuration hypotheses as enforced by the constructor.) *)
From DRF Require Import Model.WriterCore Model.PyWriter Proofs.WriterInv Proofs.RoundTrip Proofs.PyApiHistory Proofs.ApiRoundTrip.

Theorem C08_writer_channels_satisfy_FilesInv : forall c ops,
  vcfg c -> 0 < c_sc c -> (c_sc c * 1000) mod c_fc c = 0 -> Forall api_arg_ok ops ->
  (c_chunk c = true \/ c_cont c = true) ->
  FilesInv (rc_of c) (map (to_rfile c) (all_files (p_w (fold_left (api_state c) ops py_init)))).
Proof. exact api_files_reader_invariant. Qed.
Print Assumptions C08_writer_channels_satisfy_FilesInv.

(* ---- the candidate-file arithmetic regenerated.  Gen/RfLookupGen.v is produced on every run from the
   current source of DigitalRFReader._get_file_list (translator T8: Python integer expressions, range,
   np.arange, np.logical_and of two comparisons -- floating-point or np.uint64 arithmetic is not
   translatable).  The list it denotes is exactly get_file_list ExactRational of the model, about which
   the theorems above speak: the model's closed form (first / last qualifying position of the arithmetic
   progression of a subdirectory) is the filter the code applies to np.arange. *)
From DRF Require Import Gen.RfLookupGen Proofs.RfLookupGenProofs.

Theorem C08_file_lookup_is_the_regenerated_code : forall c s e, 0 < fcad c -> 0 < scad c ->
  gen_file_list c s e = get_file_list ExactRational c s e.
Proof. exact get_file_list_regen. Qed.
Print Assumptions C08_file_lookup_is_the_regenerated_code.

(* the per-row clipping of `_read` (which slice of rf_data a row of rf_data_index contributes to a
   requested range, or none), regenerated from the source by translator T9 (Gen/RfReadGen.v), is the
   step of the model's row loop *)
From DRF Require Import Gen.RfReadGen Proofs.RfReadGenProofs.

Theorem C08_row_clipping_is_the_regenerated_code : forall (P : Type) (mk : Z -> Z -> P) bss bsi rest dlen s e,
  read_rows_gen mk ((bss, bsi) :: rest) dlen s e =
  let bstop := match rest with [] => dlen | (_, o') :: _ => o' end in
  let tail := read_rows_gen mk rest dlen s e in
  match gen_row_clip bss bsi bstop s e with
  | Some (rss, rsi, rstop) => (rss, mk rsi rstop) :: tail
  | None => tail
  end.
Proof. exact (@read_rows_step_regen). Qed.
Print Assumptions C08_row_clipping_is_the_regenerated_code.

(* ---- T16: the bounds of a channel are computed by the regenerated _get_first_sample / _get_last_sample *)
From DRF Require Import Gen.BoundsGen Proofs.BoundsGenProofs.
Theorem C08_bounds_are_the_regenerated_code : forall (V : Type) (fs : list (@rfile V)),
  get_bounds fs = (first_some (fun f => gen_get_first_sample (findex f) (dlen f)) fs,
                   last_some (fun f => gen_get_last_sample (findex f) (dlen f)) fs).
Proof. exact @get_bounds_regen. Qed.
Print Assumptions C08_bounds_are_the_regenerated_code.

(* ---- T17: the sources this property rests on keep no state outside the objects the model has (no static locals
   or mutable globals in C, no class-level / module-level containers, `global` rebinding or cache decorators in
   Python): the list of such sites, regenerated from the sources on every run, is empty *)
From Coq Require Import String List.
From DRF Require Import Gen.StateSites Proofs.StateSitesProofs.
Theorem C08_no_state_outside_the_modelled_objects : state_sites_rf_python = @nil string /\ state_sites_listing = @nil string.
Proof. repeat split; first [exact no_state_outside_objects_rf_python | exact no_state_outside_objects_listing]. Qed.
Print Assumptions C08_no_state_outside_the_modelled_objects.

(* ---- T18: the block merge of read / get_continuous_blocks is the state machine regenerated from
   DigitalRFReader._combine_blocks, run over the pieces sorted by start sample *)
From DRF Require Import Gen.CombineGen Proofs.CombineGenProofs.
Theorem C08_block_merge_is_the_regenerated_code :
  (forall (V : Type) (bs : list (@block V)), Runs.combine bs = gen_combine (@app V) (fun d => Z.of_nat (length d)) bs) /\
  (forall bs, Runs.combine_len bs = gen_combine Z.add (fun x => x) bs).
Proof. split; [exact @combine_blocks_regen | exact combine_len_regen]. Qed.
Print Assumptions C08_block_merge_is_the_regenerated_code.
