(* C01 -- placeholder until Proofs/WriterProofs.v is in place. *)
From Coq Require Import ZArith List.
From DRF Require Import Model.WriterCore.
Local Open Scope Z_scope.

Theorem C01_initial_partial : forall k, files_lookup (w_files init_state) k = None.
Proof. intros k. reflexivity. Qed.
Print Assumptions C01_initial_partial.
