(* C01 -- RF write/read round-trip fidelity: the writer half.
   (The reader half -- read = maximal runs of the stored map -- is Properties/C08.v.) *)
From Coq Require Import ZArith List Bool.
From DRF Require Import Model.WriterCore Proofs.WriterInv Proofs.WriterInvU.
Import ListNotations.
Local Open Scope Z_scope.

(* After any history of single-block calls (rf_write, digital_rf_write_hdf5) in chunked mode, the
   files on disk denote exactly the Spec map: every accepted sample at its absolute index with its
   value, nothing else; rejected calls contribute nothing; the cursor is the Spec cursor.
   Calls may have any length, start anywhere at or after the cursor, and span any number of files. *)
Theorem C01_writer_refines_single_chunked_partial : forall c ops, vcfg c -> c_chunk c = true ->
  Forall (fun op => 0 <= fst op) ops ->
  refines c (fold_left (model_step c) ops init_state) (fold_left (spec_step c) ops spec_init).
Proof. exact writer_refines_single_chunked. Qed.
Print Assumptions C01_writer_refines_single_chunked_partial.

(* one call: accepted iff it starts at or after the cursor; then it returns 0 and stores exactly
   its samples *)
Theorem C01_one_call_chunked : forall c st g vec, vcfg c -> c_chunk c = true -> Inv c st -> 0 <= g ->
  if g <? w_gi st then write_one c st g vec = (-3, st)
  else exists st', write_one c st g vec = (0, st') /\ Inv c st' /\
         w_gi st' = (if zlen vec =? 0 then w_gi st else g + zlen vec) /\
         (ms_incr (map f_ms (all_files st)) -> ms_incr (map f_ms (all_files st'))) /\
         forall k, lookup_st st' k =
           if (c_start c + g <=? k) && (k <? c_start c + g + zlen vec)
           then nth_error vec (Z.to_nat (k - c_start c - g)) else lookup_st st k.
Proof. exact write_one_chunked. Qed.
Print Assumptions C01_one_call_chunked.

(* the same for the un-chunked continuous layout (continuous mode without compression/checksum),
   where single-block calls are the only calls the C library accepts: written samples are stored at
   their indices with their values; everything else that is exposed is the documented fill *)
Theorem C01_writer_refines_unchunked : forall c ops, vcfg c -> c_chunk c = false -> c_cont c = true ->
  Forall (fun op => 0 <= fst op) ops ->
  refines_u c (fold_left (model_step c) ops init_state) (fold_left (spec_step c) ops spec_init).
Proof. exact writer_refines_unchunked. Qed.
Print Assumptions C01_writer_refines_unchunked.

(* ---- the round trip at the level of the two models: the reader model (Model/ReaderCore.v, the
   repaired exact-rational file lookup) applied to the files the writer model produces returns, for
   every range [s, e], the canonical block list of the Spec map: every accepted sample at exactly
   its index with its value, nothing else; contiguously written samples as ONE block even when they
   span files and subdirectories; blocks split exactly at the edges of the gaps.
   Single-block call histories, chunked mode. *)
From DRF Require Import Base.Runs Model.ReaderCore Proofs.RoundTrip Proofs.WriterBasics.

Theorem C01_roundtrip_single_chunked_partial : forall c ops s e,
  vcfg c -> 0 < c_sc c -> (c_sc c * 1000) mod c_fc c = 0 -> c_chunk c = true ->
  Forall (fun op => 0 <= fst op) ops ->
  read ExactRational (rc_of c) (map (to_rfile c) (all_files (fold_left (model_step c) ops init_state))) s e
  = runs (s_map (fold_left (spec_step c) ops spec_init)) s e.
Proof. exact roundtrip_single_chunked. Qed.
Print Assumptions C01_roundtrip_single_chunked_partial.

(* ---- block calls: rf_write_blocks / digital_rf_write_blocks_hdf5 with any number of blocks per call.
   The block description (G_i, D_i) together with the data IS an index (rows_lookup bl vec r = the
   call's sample at relative index r); a call is accepted iff its arrays are valid w.r.t. the cursor
   (and, in continuous mode, it has a single block); an accepted call overrides the Spec map with its
   samples and moves the cursor one past its highest index; any other call changes nothing.
   Chunked layouts (gapped -- the only mode where several blocks per call are accepted -- and
   continuous with compression/checksum). *)
From DRF Require Import Proofs.WriterMultiIdx Proofs.WriterMulti.

Theorem C01_writer_refines_blocks_chunked : forall c ops, vcfg c -> c_chunk c = true ->
  Forall (fun op => first_nonneg (fst op)) ops ->
  refines c (fold_left (model_step_blocks c) ops init_state) (fold_left (spec_step_blocks c) ops spec_init).
Proof. exact writer_refines_blocks_chunked. Qed.
Print Assumptions C01_writer_refines_blocks_chunked.

(* one accepted call: return code 0, invariant kept, cursor one past the call's highest index, the
   stored map overridden by exactly the call's samples, files still in increasing time order *)
Theorem C01_write_blocks_chunked : forall c st bl vec,
  vcfg c -> c_chunk c = true -> Inv c st ->
  valid_arrays (w_gi st) (zlen vec) bl = true -> c_cont c && multi bl = false -> first_nonneg bl ->
  exists st',
    write_blocks c st bl vec = (0, st') /\ Inv c st' /\
    w_gi st' = blocks_end bl (zlen vec) /\
    (ms_incr (map f_ms (all_files st)) -> ms_incr (map f_ms (all_files st'))) /\
    forall k, lookup_st st' k =
      match rows_lookup bl vec (k - c_start c) with
      | Some v => Some v
      | None => lookup_st st k
      end.
Proof. exact write_blocks_chunked. Qed.
Print Assumptions C01_write_blocks_chunked.

(* the round trip for block-call histories: reader model on the writer model's files = canonical runs
   of the Spec map -- the full statement of the property for the chunked layouts *)
Theorem C01_roundtrip_blocks_chunked : forall c ops s e,
  vcfg c -> 0 < c_sc c -> (c_sc c * 1000) mod c_fc c = 0 -> c_chunk c = true ->
  Forall (fun op => first_nonneg (fst op)) ops ->
  read ExactRational (rc_of c) (map (to_rfile c) (all_files (fold_left (model_step_blocks c) ops init_state))) s e
  = runs (s_map (fold_left (spec_step_blocks c) ops spec_init)) s e.
Proof. exact roundtrip_blocks_chunked. Qed.
Print Assumptions C01_roundtrip_blocks_chunked.

(* the round trip in the un-chunked continuous layout (all histories of that mode): the reader model
   returns the canonical block list of what the files expose, and (refines_u) what they expose is
   every written sample at its index with its value plus the fill value in every other slot of a
   file that holds a written sample -- "other than the documented gap fill of continuous mode" *)
From DRF Require Import Proofs.WriterInvU.

Theorem C01_roundtrip_unchunked : forall c ops s e,
  vcfg c -> 0 < c_sc c -> (c_sc c * 1000) mod c_fc c = 0 ->
  c_chunk c = false -> c_cont c = true -> Forall (fun op => 0 <= fst op) ops ->
  let st := fold_left (model_step c) ops init_state in
  read ExactRational (rc_of c) (map (to_rfile c) (all_files st)) s e = runs (lookup_st st) s e /\
  refines_u c st (fold_left (spec_step c) ops spec_init).
Proof. exact roundtrip_unchunked. Qed.
Print Assumptions C01_roundtrip_unchunked.

(* ---- element types.  The extension's get_hdf5_data_type (regenerated from the source on every run,
   Gen/DtypeTable.v) stores every numpy component type the writer accepts as an HDF5 type of the same
   class, signedness, size and -- beyond one byte -- byte order; so the bytes handed over are
   interpreted as the type they were written in.  (The conversion of values by numpy/HDF5 themselves is
   outside the model: compared bit for bit on full-range values.) *)
From Coq Require Import String.
From DRF Require Import Model.FillValue Model.Dtype Gen.DtypeTable Proofs.DtypeProofs.

Theorem C01_element_type_faithful : forall k sz be,
  In (k, sz) [(KI, 1); (KI, 2); (KI, 4); (KI, 8); (KU, 1); (KU, 2); (KU, 4); (KU, 8); (KF, 4); (KF, 8)] ->
  exists name k' sz' be',
    get_hdf5_data_type (byteorder_char (mkNp k sz be)) (kind_char (mkNp k sz be)) sz = Some name /\
    h5_predef name = Some (k', sz', be') /\ k' = k /\ sz' = sz /\ (sz = 1 \/ be' = be).
Proof. exact dtype_table_faithful. Qed.
Print Assumptions C01_element_type_faithful.

(* ---- the public API as a whole.  ANY history of rf_write and rf_write_blocks calls in any mix --
   accepted, refused for going backwards, refused as malformed -- keeps the writer in the refinement
   relation with the Spec obtained by folding the per-call Spec steps: the stored samples are exactly
   those of the accepted calls at their indices (with the fill slots of the un-chunked continuous
   layout), the files are in time order and the next available sample is the Spec cursor.
   (api_arg_ok: the indices passed are not negative.)  Gapped mode: *)
From DRF Require Import Model.PyWriter Proofs.PyWriterProofs Proofs.PyApiHistory.

Theorem C01_api_history_gapped : forall c ops, vcfg c -> c_chunk c = true -> c_cont c = false ->
  Forall api_arg_ok ops ->
  PyInv (refines c) (fold_left (api_state c) ops py_init) (fold_left (api_spec_gapped c) ops spec_init).
Proof. exact api_history_gapped. Qed.
Print Assumptions C01_api_history_gapped.

(* continuous mode without compression / checksums (un-chunked layout) *)
Theorem C01_api_history_continuous_unchunked : forall c ops, vcfg c -> c_chunk c = false -> c_cont c = true ->
  Forall api_arg_ok ops ->
  PyInv (refines_u c) (fold_left (api_state c) ops py_init) (fold_left (api_spec_cont c) ops spec_init).
Proof. exact api_history_continuous_unchunked. Qed.
Print Assumptions C01_api_history_continuous_unchunked.

(* continuous mode with compression or checksums (chunked layout) *)
Theorem C01_api_history_continuous_chunked : forall c ops, vcfg c -> c_chunk c = true -> c_cont c = true ->
  Forall api_arg_ok ops ->
  PyInv (refines c) (fold_left (api_state c) ops py_init) (fold_left (api_spec_cont c) ops spec_init).
Proof. exact api_history_continuous_chunked. Qed.
Print Assumptions C01_api_history_continuous_chunked.

Theorem C01_api_example :
  let c := WriterCore.mkCfg 150000000003 100 1 1 100 false true in
  let ops := [AWrite None [1; 2]; ABlocks [5; 20] [0; 2] [3; 4; 5]; AWrite (Some 1) [9]; AWrite (Some 30) [6]] in
  Forall api_arg_ok ops /\
  p_next (fold_left (api_state c) ops py_init) = 31 /\ p_written (fold_left (api_state c) ops py_init) = 6.
Proof. exact api_example. Qed.
Print Assumptions C01_api_example.

(* ---- the round trip at the level of the public API: the reader (model of C08, exact-rational file
   lookup) on the files the writer holds after ANY history of rf_write / rf_write_blocks calls returns
   the canonical block list of the Spec map -- every accepted sample at its index, contiguous samples
   as one block across files and subdirectories, split exactly at the gaps, nothing else.
   Hypotheses on the configuration are those the constructors enforce (positive rate and cadences,
   subdirectory cadence a multiple of the file cadence). *)
From DRF Require Import Proofs.ApiRoundTrip.

Theorem C01_api_roundtrip_gapped : forall c ops s e,
  vcfg c -> 0 < c_sc c -> (c_sc c * 1000) mod c_fc c = 0 ->
  c_chunk c = true -> c_cont c = false -> Forall api_arg_ok ops ->
  read ExactRational (rc_of c) (map (to_rfile c) (all_files (p_w (fold_left (api_state c) ops py_init)))) s e
  = runs (s_map (fold_left (api_spec_gapped c) ops spec_init)) s e.
Proof. exact api_roundtrip_gapped. Qed.
Print Assumptions C01_api_roundtrip_gapped.

Theorem C01_api_roundtrip_continuous_chunked : forall c ops s e,
  vcfg c -> 0 < c_sc c -> (c_sc c * 1000) mod c_fc c = 0 ->
  c_chunk c = true -> c_cont c = true -> Forall api_arg_ok ops ->
  read ExactRational (rc_of c) (map (to_rfile c) (all_files (p_w (fold_left (api_state c) ops py_init)))) s e
  = runs (s_map (fold_left (api_spec_cont c) ops spec_init)) s e.
Proof. exact api_roundtrip_continuous_chunked. Qed.
Print Assumptions C01_api_roundtrip_continuous_chunked.

(* un-chunked continuous layout: the reader returns the canonical blocks of what the files expose
   (lookup_st), and refines_u says what that is: written samples, and the fill value in every other
   slot of every file that holds a written sample -- the documented gap fill of continuous mode *)
Theorem C01_api_roundtrip_continuous_unchunked : forall c ops s e,
  vcfg c -> 0 < c_sc c -> (c_sc c * 1000) mod c_fc c = 0 ->
  c_chunk c = false -> c_cont c = true -> Forall api_arg_ok ops ->
  let st := p_w (fold_left (api_state c) ops py_init) in
  read ExactRational (rc_of c) (map (to_rfile c) (all_files st)) s e = runs (lookup_st st) s e /\
  refines_u c st (fold_left (api_spec_cont c) ops spec_init).
Proof. exact api_roundtrip_continuous_unchunked. Qed.
Print Assumptions C01_api_roundtrip_continuous_unchunked.

(* ---- T17: the sources this property rests on keep no state outside the objects the model has (no static locals
   or mutable globals in C, no class-level / module-level containers, `global` rebinding or cache decorators in
   Python): the list of such sites, regenerated from the sources on every run, is empty *)
From Coq Require Import String List.
From DRF Require Import Gen.StateSites Proofs.StateSitesProofs.
Theorem C01_no_state_outside_the_modelled_objects : state_sites_c_library = @nil string /\ state_sites_extension = @nil string /\ state_sites_rf_python = @nil string.
Proof. repeat split; first [exact no_state_outside_objects_c_library | exact no_state_outside_objects_extension | exact no_state_outside_objects_rf_python]. Qed.
Print Assumptions C01_no_state_outside_the_modelled_objects.
