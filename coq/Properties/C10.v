(* C10 -- I/O fault containment in the writer.
   Property theorems only.  Setting: the reactive writer of Model/WriterProto.v runs against the
   abstract file system of Base/Fs.v under a fault oracle F (operation number f_at fails, and with
   f_persist every later one); all theorems below hold for EVERY oracle, hence for every single-fault
   schedule, every recording and both close-path variants unless a variant is named:
     Checked = the code since fix 9d807db (results of H5Dclose/H5Fclose/rename examined),
     Ignored = the code before it (rename follows unconditionally).
   w_hf = has_failure; w_ud = ghost flag "a fault hit an operation whose result the code does not
   examine"; rs_out = what each write call returned.
   Not modelled (assumed; tested on every fault point by ./check C10): what HDF5 does between a
   failed write(2) and its return value -- a low-level failure makes the enclosing HDF5 call fail;
   the model only records that the file is damaged. *)
From Coq Require Import ZArith List Bool.
From DRF Require Import Base.Fs Model.WriterProto Proofs.ProtoSafety Proofs.WriterProtoProofs Proofs.WriterFaultProofs.
From DRF Require Import Proofs.WriterProtoInit.
Import ListNotations.
Local Open Scope Z_scope.

(* "either the failure has no effect or it is not silent": if no call reported an error,
   has_failure is clear at the end and no fault hit an unexamined operation, every accepted file is
   published whole with its last image *)
Theorem C10_fault_is_noop_or_reported_partial : forall F v rc,
  let r := wrun F v rc in
  rs_init r = true -> forallb (fun b => b) (rs_out r) = true ->
  w_hf (rs_w r) = false -> w_ud (rs_w r) = false ->
  forall d k t, last_tag (all_parts rc) d k = Some t ->
                w_fs (rs_w r) (PData d false k) = Some (File (Complete t)).
Proof. exact fault_noop_or_reported. Qed.
Print Assumptions C10_fault_is_noop_or_reported_partial.

(* the full statement (no error reported => nothing lost) fails for the examined close path when the
   fault is inside the FINAL close: close() cannot report (witness: op 18 of wit_rec) ... *)
Theorem C10_fault_is_noop_or_reported_refuted : ~ silent_loss_free (mkVar Staged Checked).
Proof. exact silent_loss_checked_refuted. Qed.
Print Assumptions C10_fault_is_noop_or_reported_refuted.

(* ... and, with the close path unexamined, already at a roll-over (witness: op 11 of wit_rec) *)
Theorem C10_fault_is_noop_or_reported_refuted_ignored : ~ silent_loss_free (mkVar Staged Ignored).
Proof. exact silent_loss_ignored_refuted. Qed.
Print Assumptions C10_fault_is_noop_or_reported_refuted_ignored.

(* a failure the code examines is reported by the very call during which it occurs *)
Theorem C10_checked_fault_reported : forall F v l w w' ok,
  call F v l w = (w', ok) -> w_hf w = false -> w_hf w' = true -> ok = false.
Proof. exact checked_fault_reported. Qed.
Print Assumptions C10_checked_fault_reported.

(* once has_failure is set every later write is refused and issues no operation *)
Theorem C10_sticky_failure : forall F v cs1 cs2 w w1 o1,
  calls F v cs1 w = (w1, o1) -> w_hf w1 = true ->
  calls F v (cs1 ++ cs2) w = (w1, o1 ++ map (fun _ => false) cs2).
Proof. exact sticky_failure. Qed.
Print Assumptions C10_sticky_failure.

(* no file is published under a final name incomplete -- unless a fault hit an unexamined operation *)
Theorem C10_no_bad_final_file_partial : forall F v rc,
  w_ud (rs_w (wrun F v rc)) = false -> FinalsOK (w_fs (rs_w (wrun F v rc))).
Proof. exact no_bad_final_file. Qed.
Print Assumptions C10_no_bad_final_file_partial.

(* the guard is met by the examined close path whenever HDF5 issues no low-level operation inside the
   calls whose status is not looked at (H5Dcreate2, attributes, H5Dset_extent, index H5Dwrite) *)
Theorem C10_guard_checked : forall F rc,
  Forall (Forall examined_only) (r_calls rc) -> w_ud (rs_w (wrun F (mkVar Staged Checked) rc)) = false.
Proof. exact checked_staged_guard. Qed.
Print Assumptions C10_guard_checked.

(* without the guard, and with the close path unexamined, a damaged file is published *)
Theorem C10_no_bad_final_file_refuted : ~ no_bad_final_full (mkVar Staged Ignored).
Proof. exact no_bad_final_ignored_refuted. Qed.
Print Assumptions C10_no_bad_final_file_refuted.

(* files finalized before the fault remain intact (any oracle, any variant, no guard) *)
Theorem C10_earlier_files_intact : forall F v rc m w d k n,
  after_calls F v rc m = Some w -> w_fs w (PData d false k) = Some n ->
  w_fs (rs_w (wrun F v rc)) (PData d false k) = Some n.
Proof. exact earlier_files_intact. Qed.
Print Assumptions C10_earlier_files_intact.

(* construction (digital_rf_handle_metadata, properties file staged as tmp.drf_properties.h5): when any
   operation on the properties file other than H5Fcreate's existence probe fails -- create, a write or
   truncate inside H5Fcreate/H5Fclose, close(2), rename --, construction reports failure, no write call
   runs, and nothing is published (no path exists but, if its removal failed too, the tmp file) *)
Theorem C10_construction_fault_reported : forall F c rc,
  construction_op_failed F (mkVar Staged c) rc ->
  let r := wrun F (mkVar Staged c) rc in
  rs_init r = false /\ rs_out r = [] /\ rs_w r = fst (init F (mkVar Staged c) rc W0) /\
  forall p, p <> PProps true -> w_fs (rs_w r) p = None.
Proof. exact construction_fault_reported. Qed.
Print Assumptions C10_construction_fault_reported.

(* conversely a writer is only constructed with a whole drf_properties.h5 in place: whatever it accepts
   afterwards lands in a channel a reader can open *)
Theorem C10_constructed_channel_opens : forall F c rc,
  rs_init (wrun F (mkVar Staged c) rc) = true ->
  open_channel (w_fs (fst (init F (mkVar Staged c) rc W0))) = true.
Proof. exact constructed_channel_opens. Qed.
Print Assumptions C10_constructed_channel_opens.

(* ---- T21: "an error is reported" includes the recorder written as `with DigitalRFWriter(...) as w:`: the exception a
   call raises inside the block leaves the with statement -- __exit__, regenerated from digital_rf_hdf5.py, returns a
   false value whether or not the writer is still open, and closes the writer on the way *)
From DRF Require Import Gen.CtxMgrGen Proofs.CtxMgrGenProofs.
Theorem C10_with_statement_never_swallows_the_failure : forall open exc, snd (gen_exit open exc) = false.
Proof. exact exit_never_swallows. Qed.
Print Assumptions C10_with_statement_never_swallows_the_failure.

Theorem C10_with_statement_closes_the_writer : forall open exc, fst (gen_exit open exc) = gen_close_actions open.
Proof. exact exit_closes_on_every_path. Qed.
Print Assumptions C10_with_statement_closes_the_writer.

(* ---- T17: the sources this property rests on keep no state outside the objects the model has (no static locals
   or mutable globals in C, no class-level / module-level containers, `global` rebinding or cache decorators in
   Python): the list of such sites, regenerated from the sources on every run, is empty *)
From Coq Require Import String List.
From DRF Require Import Gen.StateSites Proofs.StateSitesProofs.
Theorem C10_no_state_outside_the_modelled_objects : state_sites_c_library = @nil string /\ state_sites_extension = @nil string /\ state_sites_rf_python = @nil string.
Proof. repeat split; first [exact no_state_outside_objects_c_library | exact no_state_outside_objects_extension | exact no_state_outside_objects_rf_python]. Qed.
Print Assumptions C10_no_state_outside_the_modelled_objects.
