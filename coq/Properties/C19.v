(* C19 -- Writer bookkeeping matches the recording. *)
From Coq Require Import ZArith List Bool.
From DRF Require Import Model.WriterCore Model.PyWriter Proofs.WriterBasics Proofs.WriterInv Proofs.WriterInvU.
Import ListNotations.
Local Open Scope Z_scope.

(* total written + total gap = next available sample, after ANY history of rf_write /
   rf_write_blocks / close calls -- accepted, rejected or failed, all modes, all block layouts *)
Theorem C19_counters_sum : forall c ops, counters_ok (fold_left (py_step c) ops py_init).
Proof. exact counters_sum_all_histories. Qed.
Print Assumptions C19_counters_sum.

(* a rejected call leaves every counter unchanged *)
Theorem C19_rejected_write_keeps_counters : forall gr c ps ns vec cls ret ps',
  py_rf_write gr c ps ns vec = ((cls, ret), ps') -> cls = ValueError \/ cls = IOError -> ps' = ps.
Proof. exact py_rf_write_reject_noop. Qed.
Print Assumptions C19_rejected_write_keeps_counters.

(* the C cursor equals the Spec cursor (one past the last accepted sample) and every stored index is
   below it -- single-block histories, chunked mode *)
Theorem C19_cursor_single_chunked_partial : forall c ops, vcfg c -> c_chunk c = true ->
  Forall (fun op => 0 <= fst op) ops ->
  let st := fold_left (model_step c) ops init_state in
  w_gi st = s_cur (fold_left (spec_step c) ops spec_init) /\
  forall k v, lookup_st st k = Some v -> k < c_start c + w_gi st.
Proof.
  intros c ops Hc Hch Hops st. split.
  - exact (proj1 (proj2 (writer_refines_single_chunked c ops Hc Hch Hops))).
  - exact (cursor_one_past_highest c ops Hc Hch Hops).
Qed.
Print Assumptions C19_cursor_single_chunked_partial.

(* the public rf_write: in every state reached by a history of rf_write calls (PyInv: the Python
   position equals the C cursor equals the Spec cursor, and the files denote the Spec map), a call at or
   before a written index raises ValueError and changes nothing; any other call succeeds and RETURNS
   the Spec cursor -- one past the highest index written -- which is also the new next-available
   sample.  Chunked layouts (gapped, or continuous with compression/checksum): *)
From DRF Require Import Proofs.PyWriterProofs.

Theorem C19_rf_write_history_chunked : forall c ops, vcfg c -> c_chunk c = true ->
  Forall (fun op => match fst op with Some x => 0 <= x | None => True end) ops ->
  PyInv (refines c) (fold_left (py_write_state c) ops py_init) (fold_left (spec_step_opt c) ops spec_init).
Proof. exact py_rf_write_history_chunked. Qed.
Print Assumptions C19_rf_write_history_chunked.

(* ... and the un-chunked continuous layout *)
Theorem C19_rf_write_history_unchunked : forall c ops, vcfg c -> c_chunk c = false -> c_cont c = true ->
  Forall (fun op => match fst op with Some x => 0 <= x | None => True end) ops ->
  PyInv (refines_u c) (fold_left (py_write_state c) ops py_init) (fold_left (spec_step_opt c) ops spec_init).
Proof. exact py_rf_write_history_unchunked. Qed.
Print Assumptions C19_rf_write_history_unchunked.

(* one call, chunked layout: the returned value is the next available sample *)
Theorem C19_rf_write_returns_next_available : forall c, vcfg c -> c_chunk c = true ->
  forall ps s ns vec, PyInv (refines c) ps s -> 0 <= resolve s ns ->
  let g := resolve s ns in
  let '((cls, ret), ps') := py_rf_write FromCursor c ps ns vec in
  if g <? s_cur s then cls = ValueError /\ ps' = ps
  else cls = OK /\ ret = s_cur (spec_step c s (g, vec)) /\ PyInv (refines c) ps' (spec_step c s (g, vec)).
Proof.
  intros c Hc Hch. apply (py_write_step c (refines c)).
  - intros st s (_ & H & _). exact H.
  - apply chunked_R_call; assumption.
Qed.
Print Assumptions C19_rf_write_returns_next_available.

(* block calls: the C cursor is the Spec cursor (one past the highest index of the last accepted call)
   and every stored index lies below it, for every history of block calls, chunked layouts *)
From DRF Require Import Proofs.WriterMultiIdx Proofs.WriterMulti.

Theorem C19_cursor_blocks_chunked : forall c ops, vcfg c -> c_chunk c = true ->
  Forall (fun op => first_nonneg (fst op)) ops ->
  let st := fold_left (model_step_blocks c) ops init_state in
  w_gi st = s_cur (fold_left (spec_step_blocks c) ops spec_init) /\
  forall k v, lookup_st st k = Some v -> k < c_start c + w_gi st.
Proof.
  intros c ops Hc Hch Hops st. split.
  - exact (proj1 (proj2 (writer_refines_blocks_chunked c ops Hc Hch Hops))).
  - exact (cursor_one_past_highest_blocks c ops Hc Hch Hops).
Qed.
Print Assumptions C19_cursor_blocks_chunked.

(* the public rf_write_blocks in gapped mode: a call whose arrays pass the Python validation succeeds
   and RETURNS one past the call's highest index, which becomes the next available sample and the
   Spec cursor; any other call raises ValueError and changes nothing *)
Theorem C19_rf_write_blocks_gapped : forall c ps s G D vec,
  vcfg c -> c_chunk c = true -> c_cont c = false ->
  PyInv (refines c) ps s -> first_nonneg (combine G D) ->
  if py_arrays_ok (s_cur s) (zlen vec) G D
  then fst (py_rf_write_blocks c ps G D vec) = (OK, blocks_end (combine G D) (zlen vec)) /\
       PyInv (refines c) (snd (py_rf_write_blocks c ps G D vec)) (spec_step_blocks c s (combine G D, vec))
  else (exists code, py_rf_write_blocks c ps G D vec = ((ValueError, code), ps)).
Proof. exact py_rf_write_blocks_gapped. Qed.
Print Assumptions C19_rf_write_blocks_gapped.

(* the reported last file and directory: after every accepted, non-empty block call the name the
   writer holds (what get_last_file_written / get_last_dir_written report, also after close, since
   close keeps w_cur) is the file of the most recently written sample, Fk (start + cursor - 1) --
   and by C04 the directory is a function of that file.  Chunked layouts. *)
From DRF Require Import Proofs.WriterLast.

Theorem C19_last_file_is_file_of_last_sample : forall c st bl vec,
  vcfg c -> c_chunk c = true -> Inv c st ->
  valid_arrays (w_gi st) (zlen vec) bl = true -> c_cont c && multi bl = false -> first_nonneg bl ->
  exists st', write_blocks c st bl vec = (0, st') /\
              w_cur st' = Some (Fk c (c_start c + w_gi st' - 1)).
Proof. exact last_file_is_file_of_last_sample. Qed.
Print Assumptions C19_last_file_is_file_of_last_sample.

(* the public rf_write_blocks in continuous mode: the extension splits the call into one C call per
   block; arrays that pass the Python validation are accepted as a whole, the call returns the cursor
   after its last block and has exactly the effect of the Spec steps of its blocks (R is the
   refinement relation of the layout: `refines c` when chunked, `refines_u c` when not); any other
   call raises ValueError and changes nothing.  Un-chunked continuous layout: *)
Theorem C19_rf_write_blocks_continuous_unchunked : forall c ps s G D vec,
  vcfg c -> c_chunk c = false -> c_cont c = true -> (1 < length G)%nat ->
  PyInv (refines_u c) ps s -> first_nonneg (combine G D) ->
  if py_arrays_ok (s_cur s) (zlen vec) G D
  then exists st', snd (py_rf_write_blocks c ps G D vec) =
                     mkPy (w_gi st') (p_written ps + zlen vec) (p_gap ps + ((w_gi st' - p_next ps) - zlen vec)) false st' /\
                   fst (py_rf_write_blocks c ps G D vec) = (OK, w_gi st') /\
                   refines_u c st' (fold_left (spec_step c) (blocks_of G D vec (zlen vec)) s)
  else (exists code, py_rf_write_blocks c ps G D vec = ((ValueError, code), ps)).
Proof.
  intros c ps s G D vec Hc Hch Hco. apply (py_rf_write_blocks_continuous c (refines_u c)); try assumption.
  - intros st s0 H. exact (ru_cur _ _ _ H).
  - apply unchunked_R_call; assumption.
Qed.
Print Assumptions C19_rf_write_blocks_continuous_unchunked.

(* the same in the chunked continuous layouts (compression or checksums enabled) *)
Theorem C19_rf_write_blocks_continuous_chunked : forall c ps s G D vec,
  vcfg c -> c_chunk c = true -> c_cont c = true -> (1 < length G)%nat ->
  PyInv (refines c) ps s -> first_nonneg (combine G D) ->
  if py_arrays_ok (s_cur s) (zlen vec) G D
  then exists st', snd (py_rf_write_blocks c ps G D vec) =
                     mkPy (w_gi st') (p_written ps + zlen vec) (p_gap ps + ((w_gi st' - p_next ps) - zlen vec)) false st' /\
                   fst (py_rf_write_blocks c ps G D vec) = (OK, w_gi st') /\
                   refines c st' (fold_left (spec_step c) (blocks_of G D vec (zlen vec)) s)
  else (exists code, py_rf_write_blocks c ps G D vec = ((ValueError, code), ps)).
Proof.
  intros c ps s G D vec Hc Hch Hco. apply (py_rf_write_blocks_continuous c (refines c)); try assumption.
  - intros st s0 H. exact (proj1 (proj2 H)).
  - apply chunked_R_call; assumption.
Qed.
Print Assumptions C19_rf_write_blocks_continuous_chunked.

(* the last-file name in the un-chunked continuous layout: after every accepted non-empty call the
   name the writer holds is the file of the most recently written sample *)
From DRF Require Import Proofs.WriterLast.

Theorem C19_last_file_unchunked : forall c st g vec,
  vcfg c -> c_chunk c = false -> c_cont c = true -> InvU c st -> w_gi st <= g -> 0 <= g -> 0 < zlen vec ->
  exists st', write_one c st g vec = (0, st') /\
              w_cur st' = Some (Fk c (c_start c + w_gi st' - 1)).
Proof. exact last_file_is_file_of_last_sample_u. Qed.
Print Assumptions C19_last_file_unchunked.

(* ... and remains available after close, together with the cursor *)
Theorem C19_close_keeps_last_file_and_cursor : forall st,
  w_cur (close_writer st) = w_cur st /\ w_gi (close_writer st) = w_gi st.
Proof. exact close_keeps_last. Qed.
Print Assumptions C19_close_keeps_last_file_and_cursor.

(* ---- every call of the public API, in any state reachable by any mixed history (PyInv is kept by
   the C01_api_history theorems): an accepted call returns the Spec cursor -- one past the highest index written --
   and the successor state is again in the invariant (whose p_next component is that cursor) *)
From DRF Require Import Proofs.PyApiHistory.

Theorem C19_api_call_gapped : forall c ps s op, vcfg c -> c_chunk c = true -> c_cont c = false ->
  PyInv (refines c) ps s -> api_arg_ok op ->
  PyInv (refines c) (api_state c ps op) (api_spec_gapped c s op) /\
  (fst (fst (api_call c ps op)) = OK -> snd (fst (api_call c ps op)) = s_cur (api_spec_gapped c s op)).
Proof. exact api_step_gapped. Qed.
Print Assumptions C19_api_call_gapped.

Theorem C19_api_call_continuous_unchunked : forall c ps s op, vcfg c -> c_chunk c = false -> c_cont c = true ->
  PyInv (refines_u c) ps s -> api_arg_ok op ->
  PyInv (refines_u c) (api_state c ps op) (api_spec_cont c s op) /\
  (fst (fst (api_call c ps op)) = OK -> snd (fst (api_call c ps op)) = s_cur (api_spec_cont c s op)).
Proof.
  intros c ps s op Hc Hch Hco. apply (api_step_cont c (refines_u c)).
  - intros st s0 H. exact (ru_cur _ _ _ H).
  - apply unchunked_R_call; assumption.
  - exact Hco.
Qed.
Print Assumptions C19_api_call_continuous_unchunked.

Theorem C19_api_call_continuous_chunked : forall c ps s op, vcfg c -> c_chunk c = true -> c_cont c = true ->
  PyInv (refines c) ps s -> api_arg_ok op ->
  PyInv (refines c) (api_state c ps op) (api_spec_cont c s op) /\
  (fst (fst (api_call c ps op)) = OK -> snd (fst (api_call c ps op)) = s_cur (api_spec_cont c s op)).
Proof.
  intros c ps s op Hc Hch Hco. apply (api_step_cont c (refines c)).
  - intros st s0 (_ & H & _). exact H.
  - apply chunked_R_call; assumption.
  - exact Hco.
Qed.
Print Assumptions C19_api_call_continuous_chunked.

(* ---- the counters count.  written_count c s is the NUMBER of indices below the Spec cursor that hold a
   written sample.  After any history of rf_write and rf_write_blocks calls in continuous mode (both
   layouts), and after any history of rf_write calls in gapped mode: the next available sample is the
   Spec cursor, the total of samples written is the number of written indices, and the total of gap
   samples is the number of skipped indices (cursor minus written indices). *)
From DRF Require Import Proofs.Counters.

Theorem C19_counters_count_continuous_unchunked : forall c ops,
  vcfg c -> c_chunk c = false -> c_cont c = true -> Forall api_arg_ok ops ->
  let ps := fold_left (api_state c) ops py_init in
  let s := fold_left (api_spec_cont c) ops spec_init in
  p_next ps = s_cur s /\ p_written ps = written_count c s /\ p_gap ps = s_cur s - written_count c s.
Proof. exact counters_count_continuous_unchunked. Qed.
Print Assumptions C19_counters_count_continuous_unchunked.

Theorem C19_counters_count_continuous_chunked : forall c ops,
  vcfg c -> c_chunk c = true -> c_cont c = true -> Forall api_arg_ok ops ->
  let ps := fold_left (api_state c) ops py_init in
  let s := fold_left (api_spec_cont c) ops spec_init in
  p_next ps = s_cur s /\ p_written ps = written_count c s /\ p_gap ps = s_cur s - written_count c s.
Proof. exact counters_count_continuous_chunked. Qed.
Print Assumptions C19_counters_count_continuous_chunked.

Theorem C19_counters_count_rf_write : forall c ops, vcfg c -> c_chunk c = true ->
  Forall (fun op => match fst op with Some x => 0 <= x | None => True end) ops ->
  let ps := fold_left (py_write_state c) ops py_init in
  let s := fold_left (spec_step_opt c) ops spec_init in
  p_next ps = s_cur s /\ p_written ps = written_count c s /\ p_gap ps = s_cur s - written_count c s.
Proof. exact counters_count_rf_write. Qed.
Print Assumptions C19_counters_count_rf_write.

(* total_samples_written is the number of samples of the accepted calls: every history of API calls,
   every mode, no hypothesis at all *)
Theorem C19_written_is_accepted_total : forall c ops ps,
  p_written (fold_left (api_state c) ops ps) = p_written ps + accepted_total c ps ops.
Proof. exact written_is_accepted_total. Qed.
Print Assumptions C19_written_is_accepted_total.

Theorem C19_counters_example :
  let c := mkCfg 150000000003 100 1 1 100 false true in
  let ops := [(None, [1; 2]); (Some 5, [3]); (Some 1, [9]); (Some 30, [4; 5])] in
  let s := fold_left (spec_step_opt c) ops spec_init in
  s_cur s = 32 /\ written_count c s = 5 /\ s_cur s - written_count c s = 27.
Proof. exact counters_example. Qed.
Print Assumptions C19_counters_example.

(* gapped mode: histories mixing rf_write and rf_write_blocks (any number of blocks per call) *)
Theorem C19_counters_count_gapped : forall c ops,
  vcfg c -> c_chunk c = true -> c_cont c = false -> Forall api_arg_ok ops ->
  let ps := fold_left (api_state c) ops py_init in
  let s := fold_left (api_spec_gapped c) ops spec_init in
  p_next ps = s_cur s /\ p_written ps = written_count c s /\ p_gap ps = s_cur s - written_count c s.
Proof. exact counters_count_gapped. Qed.
Print Assumptions C19_counters_count_gapped.

(* the Spec of a valid multi-block call is the sequence of the Spec steps of its blocks (same cursor,
   same map): gapped-mode and continuous-mode Specs describe an rf_write_blocks call identically *)
Theorem C19_blocks_spec_is_sequence : forall c s G D vec,
  c_cont c && multi (combine G D) = false ->
  py_arrays_ok (s_cur s) (zlen vec) G D = true -> first_nonneg (combine G D) ->
  let a := spec_step_blocks c s (combine G D, vec) in
  let b := fold_left (spec_step c) (blocks_of G D vec (zlen vec)) s in
  s_cur a = s_cur b /\ forall k, s_map a k = s_map b k.
Proof. exact blocks_spec_is_sequence. Qed.
Print Assumptions C19_blocks_spec_is_sequence.

(* ---- the counter updates regenerated from the Python source (translator T6, Gen/PyFront.v): the
   accepted branch of the model's rf_write_blocks is exactly gen_blocks_counters (that of rf_write is
   C05_py_rf_write_is_the_regenerated_code) *)
From DRF Require Import Gen.PyFront Proofs.PyFrontProofs.

Theorem C19_blocks_counters_are_the_regenerated_code : forall c ps G D vec,
  py_arrays_ok (p_next ps) (zlen vec) G D = true -> p_closed ps = false ->
  py_rf_write_blocks c ps G D vec =
    (let '(rc, w') := if c_cont c && (1 <? Z.of_nat (length G)) then split_blocks c (p_w ps) G D vec (zlen vec)
                      else write_blocks c (p_w ps) (combine G D) vec in
     if negb (rc =? 0) then ((RuntimeError, 0), mkPy (p_next ps) (p_written ps) (p_gap ps) false w')
     else let '(nx, wr, gp, ret) := gen_blocks_counters (p_next ps) (p_written ps) (p_gap ps) (w_gi w') (zlen vec) in
          ((OK, ret), mkPy nx wr gp false w')).
Proof. exact blocks_counters_regen. Qed.
Print Assumptions C19_blocks_counters_are_the_regenerated_code.

(* ---- T21: what the getters report after close is remembered on EVERY way of letting the writer go: close(), leaving a
   with block normally, leaving it by an exception -- __exit__ (regenerated from digital_rf_hdf5.py) does exactly what
   close() does on both paths, close() stores the last file, directory and timestamp before it frees the C object,
   and a second close does nothing *)
From Coq Require Import List.
Import ListNotations.
From DRF Require Import Gen.CtxMgrGen Proofs.CtxMgrGenProofs.
Theorem C19_with_block_closes_like_close : forall open exc, fst (gen_exit open exc) = gen_close_actions open.
Proof. exact exit_closes_on_every_path. Qed.
Print Assumptions C19_with_block_closes_like_close.

Theorem C19_close_remembers_last_file_before_freeing :
  In CacheFile (before_free (gen_close_actions true)) /\
  In CacheDir (before_free (gen_close_actions true)) /\
  In CacheTimestamp (before_free (gen_close_actions true)) /\
  length (filter is_free (gen_close_actions true)) = 1%nat /\
  exists l, gen_close_actions true = l ++ [Free].
Proof. exact close_remembers_before_it_frees. Qed.
Print Assumptions C19_close_remembers_last_file_before_freeing.

Theorem C19_second_close_is_a_no_op : gen_close_actions false = [] /\ forall exc, fst (gen_exit false exc) = [].
Proof. exact second_close_is_a_no_op. Qed.
Print Assumptions C19_second_close_is_a_no_op.

(* ---- T17: the sources this property rests on keep no state outside the objects the model has (no static locals
   or mutable globals in C, no class-level / module-level containers, `global` rebinding or cache decorators in
   Python): the list of such sites, regenerated from the sources on every run, is empty *)
From Coq Require Import String List.
From DRF Require Import Gen.StateSites Proofs.StateSitesProofs.
Theorem C19_no_state_outside_the_modelled_objects : state_sites_c_library = @nil string /\ state_sites_extension = @nil string /\ state_sites_rf_python = @nil string.
Proof. repeat split; first [exact no_state_outside_objects_c_library | exact no_state_outside_objects_extension | exact no_state_outside_objects_rf_python]. Qed.
Print Assumptions C19_no_state_outside_the_modelled_objects.
