(* C19 -- placeholder until Proofs/WriterProofs.v is in place: the theorem below is the
   initial-state instance only and is labelled as such. *)
From Coq Require Import ZArith List.
From DRF Require Import Model.WriterCore Model.PyWriter.
Local Open Scope Z_scope.

Theorem C19_initial_counters_partial : p_written py_init + p_gap py_init = p_next py_init.
Proof. exact (eq_refl 0). Qed.
Print Assumptions C19_initial_counters_partial.
