(* C19 -- Writer bookkeeping matches the recording. *)
From Coq Require Import ZArith List Bool.
From DRF Require Import Model.WriterCore Model.PyWriter Proofs.WriterBasics Proofs.WriterInv.
Import ListNotations.
Local Open Scope Z_scope.

(* total written + total gap = next available sample, after ANY history of rf_write /
   rf_write_blocks / close calls -- accepted, rejected or failed, all modes, all block layouts *)
Theorem C19_counters_sum : forall c ops, counters_ok (fold_left (py_step c) ops py_init).
Proof. exact counters_sum_all_histories. Qed.
Print Assumptions C19_counters_sum.

(* a rejected call leaves every counter unchanged *)
Theorem C19_rejected_write_keeps_counters : forall gr c ps ns vec cls ret ps',
  py_rf_write gr c ps ns vec = ((cls, ret), ps') -> cls = ValueError \/ cls = IOError -> ps' = ps.
Proof. exact py_rf_write_reject_noop. Qed.
Print Assumptions C19_rejected_write_keeps_counters.

(* the C cursor equals the Spec cursor (one past the last accepted sample) and every stored index is
   below it -- single-block histories, chunked mode *)
Theorem C19_cursor_single_chunked_partial : forall c ops, vcfg c -> c_chunk c = true ->
  Forall (fun op => 0 <= fst op) ops ->
  let st := fold_left (model_step c) ops init_state in
  w_gi st = s_cur (fold_left (spec_step c) ops spec_init) /\
  forall k v, lookup_st st k = Some v -> k < c_start c + w_gi st.
Proof.
  intros c ops Hc Hch Hops st. split.
  - exact (proj1 (proj2 (writer_refines_single_chunked c ops Hc Hch Hops))).
  - exact (cursor_one_past_highest c ops Hc Hch Hops).
Qed.
Print Assumptions C19_cursor_single_chunked_partial.
