(* C04 -- Deterministic time-partitioned file layout.
   digital_rf_get_subdir_file is the Gallina term regenerated from c/lib/rf_write_hdf5.c on every
   run (64-bit wrap-around explicit, snprintf formats taken from the C text, gmtime modelled by
   Base/Civil.v).  Spec: ms_of K = floor(K*d*1000/n); F_of K = fc * (ms_of K / fc);
   S_of K = sc * (floor(K*d/n) / sc); file_start f = ceil(f*n/(1000*d)). *)
From Coq Require Import ZArith String List.
From DRF Require Import Base.U64 Base.DivLemmas Base.Dec Base.Civil Gen.LayoutGen
  Model.LayoutSpec Proofs.TimeConvProofs Proofs.LayoutProofs.
Import ListNotations.
Local Open Scope Z_scope.

(* For every absolute index K = start + k in the property's domain and every cadence pair, the C
   function succeeds, names the file rf@<F/1000>.<F mod 1000, 3 digits>.h5 (under its tmp. prefix
   while open) and the directory by the calendar fields of S, and reports exactly the number of
   slots left in / capacity of the window [file_start F, file_start (F+fc)). *)
Theorem C04_subdir_file_exact : forall start n d sc fc k,
  let K := start + k in
  Dom K n d -> 0 <= start -> 0 <= k -> 0 < sc < W64 -> 0 < fc < H64 ->
  file_start (F_of K n d fc + fc) n d < H64 ->
  digital_rf_get_subdir_file start n d sc fc k =
   (0, file_start (F_of K n d fc + fc) n d - K,
       file_start (F_of K n d fc + fc) n d - file_start (F_of K n d fc) n d,
       (let '(y, mo, dd, hh, mi, ss) := time_parts (S_of K n d sc) in
        snprintf "%04i-%02i-%02iT%02i-%02i-%02i" [y; mo; dd; hh; mi; ss]),
       snprintf "tmp.rf@%lu.%03lu.h5" [F_of K n d fc / 1000; F_of K n d fc mod 1000]).
Proof. exact subdir_file_exact. Qed.
Print Assumptions C04_subdir_file_exact.

(* no file holds a sample outside its own time window *)
Theorem C04_window : forall K n d fc, 0 < n -> 0 < d -> 0 < fc ->
  file_start (F_of K n d fc) n d <= K < file_start (F_of K n d fc + fc) n d.
Proof. exact window. Qed.
Print Assumptions C04_window.

(* two indices share a file exactly when the second lies in the first one's window:
   so no two files of a channel hold the same index *)
Theorem C04_same_file_iff : forall K K' n d fc, 0 < n -> 0 < d -> 0 < fc ->
  (F_of K' n d fc = F_of K n d fc <->
   file_start (F_of K n d fc) n d <= K' < file_start (F_of K n d fc + fc) n d).
Proof. exact same_file_iff. Qed.
Print Assumptions C04_same_file_iff.

(* under the cadence rule the subdirectory is determined by the file *)
Theorem C04_dir_of_file : forall K n d sc fc, 0 < n -> 0 < sc -> 0 < fc -> (sc * 1000) mod fc = 0 ->
  S_of K n d sc = sc * ((F_of K n d fc / 1000) / sc).
Proof. exact dir_of_file. Qed.
Print Assumptions C04_dir_of_file.

(* every file has room for at least one sample *)
Theorem C04_capacity_positive : forall K n d fc, 0 < n -> 0 < d -> 0 < fc ->
  1 <= file_start (F_of K n d fc + fc) n d - file_start (F_of K n d fc) n d.
Proof. exact capacity_positive. Qed.
Print Assumptions C04_capacity_positive.

(* names are injective: two different file times never print to the same rf@<sec>.<ms>.h5, and two
   different directory times (before year 10000) never to the same YYYY-MM-DDTHH-MM-SS -- so file
   and directory names are a pure, injective function of (sample index, rate, cadences) *)
From DRF Require Import Proofs.NameProofs.

Theorem C04_file_name_injective : forall F F', 0 <= F -> 0 <= F' ->
  snprintf "tmp.rf@%lu.%03lu.h5" [F / 1000; F mod 1000] = snprintf "tmp.rf@%lu.%03lu.h5" [F' / 1000; F' mod 1000] ->
  F = F'.
Proof. exact file_name_injective. Qed.
Print Assumptions C04_file_name_injective.

Theorem C04_subdir_name_injective : forall S S', 0 <= S < 253402300800 -> 0 <= S' < 253402300800 ->
  (let '(y, mo, dd, hh, mi, ss) := time_parts S in
   snprintf "%04i-%02i-%02iT%02i-%02i-%02i" [y; mo; dd; hh; mi; ss]) =
  (let '(y, mo, dd, hh, mi, ss) := time_parts S' in
   snprintf "%04i-%02i-%02iT%02i-%02i-%02i" [y; mo; dd; hh; mi; ss]) ->
  S = S'.
Proof. exact subdir_name_injective. Qed.
Print Assumptions C04_subdir_name_injective.

(* ---- the writer as a whole.  After ANY history of public API calls (rf_write / rf_write_blocks in any
   mix, accepted or refused) every index a file of the channel holds lies in the file the exact layout
   names for it -- f_ms a = F_of k = floor(k*d*1000/n) rounded down to the file cadence, whose name and
   subdirectory are the pure functions proved above -- and no two files hold the same index. *)
From DRF Require Import Model.WriterCore Model.PyWriter Proofs.WriterInv Proofs.PyApiHistory Proofs.ApiLayout.

Theorem C04_api_index_in_named_file_gapped : forall c ops a k v,
  vcfg c -> c_chunk c = true -> c_cont c = false -> Forall api_arg_ok ops ->
  In a (all_files (p_w (fold_left (api_state c) ops py_init))) -> file_lookup a k = Some v ->
  f_ms a = F_of k (c_n c) (c_d c) (c_fc c).
Proof. exact api_index_in_named_file_gapped. Qed.
Print Assumptions C04_api_index_in_named_file_gapped.

Theorem C04_api_index_in_named_file_continuous_chunked : forall c ops a k v,
  vcfg c -> c_chunk c = true -> c_cont c = true -> Forall api_arg_ok ops ->
  In a (all_files (p_w (fold_left (api_state c) ops py_init))) -> file_lookup a k = Some v ->
  f_ms a = F_of k (c_n c) (c_d c) (c_fc c).
Proof. exact api_index_in_named_file_continuous_chunked. Qed.
Print Assumptions C04_api_index_in_named_file_continuous_chunked.

Theorem C04_api_index_in_named_file_continuous_unchunked : forall c ops a k v,
  vcfg c -> c_chunk c = false -> c_cont c = true -> Forall api_arg_ok ops ->
  In a (all_files (p_w (fold_left (api_state c) ops py_init))) -> file_lookup a k = Some v ->
  f_ms a = F_of k (c_n c) (c_d c) (c_fc c).
Proof. exact api_index_in_named_file_continuous_unchunked. Qed.
Print Assumptions C04_api_index_in_named_file_continuous_unchunked.

Theorem C04_api_no_index_in_two_files_gapped : forall c ops i j a b k v w,
  vcfg c -> c_chunk c = true -> c_cont c = false -> Forall api_arg_ok ops ->
  let fs := all_files (p_w (fold_left (api_state c) ops py_init)) in
  nth_error fs i = Some a -> nth_error fs j = Some b ->
  file_lookup a k = Some v -> file_lookup b k = Some w -> i = j.
Proof. exact api_no_index_in_two_files_gapped. Qed.
Print Assumptions C04_api_no_index_in_two_files_gapped.

Theorem C04_api_no_index_in_two_files_continuous_unchunked : forall c ops i j a b k v w,
  vcfg c -> c_chunk c = false -> c_cont c = true -> Forall api_arg_ok ops ->
  let fs := all_files (p_w (fold_left (api_state c) ops py_init)) in
  nth_error fs i = Some a -> nth_error fs j = Some b ->
  file_lookup a k = Some v -> file_lookup b k = Some w -> i = j.
Proof. exact api_no_index_in_two_files_continuous_unchunked. Qed.
Print Assumptions C04_api_no_index_in_two_files_continuous_unchunked.

(* digital_rf_get_time_parts, which the regenerated code above calls, is itself checked on every run
   (translator T13): it must take its broken-down time from gmtime(&unix_second) -- UTC, not the local
   zone, not home-made arithmetic -- and add the constants of the regenerated table; the hand model
   Model/TimeParts.v used above is that table applied to libc's gmtime (Base/Civil.v) *)
From DRF Require Import Model.TimeParts Gen.TimePartsGen Proofs.TimePartsGenProofs.

Theorem C04_time_parts_is_gmtime_plus_the_regenerated_table : forall t,
  let '(rc, y, m, d, hh, mm, ss) := digital_rf_get_time_parts t in
  rc = 0 /\ gen_time_parts t = [y; m; d; hh; mm; ss].
Proof. exact time_parts_regen. Qed.
Print Assumptions C04_time_parts_is_gmtime_plus_the_regenerated_table.

(* ---- T17: the sources this property rests on keep no state outside the objects the model has (no static locals
   or mutable globals in C, no class-level / module-level containers, `global` rebinding or cache decorators in
   Python): the list of such sites, regenerated from the sources on every run, is empty *)
From Coq Require Import String List.
From DRF Require Import Gen.StateSites Proofs.StateSitesProofs.
Theorem C04_no_state_outside_the_modelled_objects : state_sites_c_library = @nil string /\ state_sites_extension = @nil string.
Proof. repeat split; first [exact no_state_outside_objects_c_library | exact no_state_outside_objects_extension]. Qed.
Print Assumptions C04_no_state_outside_the_modelled_objects.
