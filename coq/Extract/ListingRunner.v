(* Extraction of the regex matcher, the event-filter model (C15), the listing model (C14) and the
   transfer model (C18).  ExtrOcamlBasic only.  Protocol: harness/props/listing_codec.py. *)
From Coq Require Import ZArith List Bool.
From DRF Require Import Base.Regex Gen.Grammar Model.PathSpec Model.Events Model.EventsUniverse Model.Listing Model.Transfer.
Require Extraction.
Require Import ExtrOcamlBasic.
Import ListNotations.
Local Open Scope Z_scope.

Definition zb (z : Z) : bool := negb (z =? 0).
Definition bz (b : bool) : Z := if b then 1 else 0.
Definition zob (z : Z) : option bool := if z =? 2 then None else Some (zb z).
Definition zlen (w : word) : Z := Z.of_nat (List.length w).

Definition enc_word (w : word) : list Z := zlen w :: w.

(* take a length-prefixed word off the front *)
Definition take_word (l : list Z) : word * list Z :=
  match l with
  | [] => ([], [])
  | n :: r => (firstn (Z.to_nat n) r, skipn (Z.to_nat n) r)
  end.

Definition take_opt (l : list Z) : option Z * list Z :=
  match l with
  | fl :: v :: r => ((if zb fl then Some v else None), r)
  | _ => (None, [])
  end.

Definition enc_caps (c : caps) : list Z :=
  flat_map (fun g => match group g c with None => [0] | Some w => 1 :: enc_word w end) group_order.

Definition kind_of (z : Z) : kind :=
  if z =? 0 then Created else if z =? 1 then Modified else if z =? 2 then Deleted else Moved.
Definition kind_code (k : kind) : Z :=
  match k with Created => 0 | Modified => 1 | Deleted => 2 | Moved => 3 end.

Definition enc_paths (l : list (word * bool)) : list Z :=
  flat_map (fun pb => bz (snd pb) :: enc_word (fst pb)) l.

Definition enc_oz (o : option Z) : list Z := match o with Some v => [1; v] | None => [0; 0] end.

Fixpoint take_words_fuel (fuel : nat) (l : list Z) : list word :=
  match fuel, l with
  | S fuel', n :: r => firstn (Z.to_nat n) r :: take_words_fuel fuel' (skipn (Z.to_nat n) r)
  | _, _ => []
  end.
Definition take_words (l : list Z) : list word := take_words_fuel (List.length l) l.

Definition code_of (ev : event) (o : outcome) : Z :=
  match o with
  | Dropped => 0
  | Raises => 2
  | Deliver k' s' d' =>
    if (kind_code k' =? kind_code (ev_kind ev)) && word_eqb s' (ev_src ev) && word_eqb d' (ev_dest ev) then 1
    else if (kind_code k' =? 2) && word_eqb s' (ev_src ev) && word_eqb d' [] then 4
    else if (kind_code k' =? 0) && word_eqb s' (ev_dest ev) && word_eqb d' [] then 5
    else 9
  end.

(* trees: 0 = file | 2 = vanished directory | 1 n (name node)^n = directory *)
Fixpoint parse_node (fuel : nat) (l : list Z) : option (node * list Z) :=
  match fuel with
  | O => None
  | S f =>
    match l with
    | 0 :: r => Some (File, r)
    | 2 :: r => Some (Gone, r)
    | 1 :: n :: r =>
      match parse_entries f (Z.to_nat n) r with
      | Some (es, r') => Some (Dir es, r')
      | None => None
      end
    | _ => None
    end
  end
with parse_entries (fuel : nat) (n : nat) (l : list Z) : option (list (word * node) * list Z) :=
  match n with
  | O => Some ([], l)
  | S n' =>
    match fuel with
    | O => None
    | S f =>
      let '(w, r) := take_word l in
      match parse_node f r with
      | Some (nd, r') =>
        match parse_entries f n' r' with
        | Some (es, r'') => Some ((w, nd) :: es, r'')
        | None => None
        end
      | None => None
      end
    end
  end.

Definition err_code (e : option err) : Z :=
  match e with None => 0 | Some IndexError => 1 | Some OSErrorE => 2 | Some ValueErrorE => 3 end.

Definition enc_result (r : list word * option err) : list Z :=
  err_code (snd r) :: zlen (map (fun _ => 0) (fst r)) :: flat_map enc_word (fst r).

(* variant(4) flags(4) start(2) end(2) recursive reverse ctx? [base parent-node] node *)
Definition run_listing (args : list Z) : list Z :=
  match args with
  | v1 :: v2 :: v3 :: v4 :: a :: b :: c :: d :: rest =>
    let v := mkVariant (zb v1) (zb v2) (zb v3) (zb v4) in
    let fl := mkFlags (zb a) (zb b) (zob c) (zob d) in
    let '(st, rest) := take_opt rest in
    let '(en, rest) := take_opt rest in
    match rest with
    | rc :: rv :: hasctx :: rest =>
      let o := mkOpts fl st en (zb rc) (zb rv) in
      let fuel := List.length rest in
      if zb hasctx then
        let '(base, rest) := take_word rest in
        match parse_node fuel rest with
        | Some (Dir parent, rest') =>
          match parse_node fuel rest' with
          | Some (t, _) => enc_result (ilsdrf v o (Some (base, parent)) t)
          | None => [-995]
          end
        | _ => [-996]
        end
      else
        match parse_node fuel rest with
        | Some (t, _) => enc_result (ilsdrf v o None t)
        | None => [-995]
        end
    | _ => [-997]
    end
  | _ => [-997]
  end.

(* content trees: 0 c = file with content c | 2 = vanished | 1 n (name node)^n *)
Fixpoint parse_cnode (fuel : nat) (l : list Z) : option (cnode * list Z) :=
  match fuel with
  | O => None
  | S f =>
    match l with
    | 0 :: c :: r => Some (CFile c, r)
    | 2 :: r => Some (CGone, r)
    | 1 :: n :: r =>
      match parse_centries f (Z.to_nat n) r with
      | Some (es, r') => Some (CDir es, r')
      | None => None
      end
    | _ => None
    end
  end
with parse_centries (fuel : nat) (n : nat) (l : list Z) : option (list (word * cnode) * list Z) :=
  match n with
  | O => Some ([], l)
  | S n' =>
    match fuel with
    | O => None
    | S f =>
      let '(w, r) := take_word l in
      match parse_cnode f r with
      | Some (nd, r') =>
        match parse_centries f n' r' with
        | Some (es, r'') => Some ((w, nd) :: es, r'')
        | None => None
        end
      | None => None
      end
    end
  end.

Fixpoint parse_store (n : nat) (l : list Z) : store :=
  match n with
  | O => []
  | S n' => let '(w, r) := take_word l in
            match r with c :: r' => (w, c) :: parse_store n' r' | [] => [] end
  end.

Definition enc_store (s : store) : list Z :=
  zlen (map (fun _ => 0) s) :: flat_map (fun pc : word * Z => enc_word (fst pc) ++ [snd pc]) s.

Definition terr_code (e : option terr) : Z :=
  match e with
  | None => 0 | Some FileExists => 1 | Some NoSuchFile => 2
  | Some (ListingError x) => 10 + err_code (Some x)
  end.

(* op variant(4) flags(4) start(2) end(2) recursive reverse src-tree ndst dst-store *)
Definition run_transfer (args : list Z) : list Z :=
  match args with
  | opc :: v1 :: v2 :: v3 :: v4 :: a :: b :: c :: d :: rest =>
    let o := if opc =? 0 then Cp else if opc =? 1 then Mv else if opc =? 2 then LnHard else LnSym in
    let v := mkVariant (zb v1) (zb v2) (zb v3) (zb v4) in
    let fl := mkFlags (zb a) (zb b) (zob c) (zob d) in
    let '(st, rest) := take_opt rest in
    let '(en, rest) := take_opt rest in
    match rest with
    | rc :: rv :: rest =>
      let lo := mkOpts fl st en (zb rc) (zb rv) in
      match parse_cnode (List.length rest) rest with
      | Some (src, n :: rest') =>
        let dst := parse_store (Z.to_nat n) rest' in
        let '((src', dst'), e) := drf_transfer o v lo src dst in
        terr_code e :: enc_store src' ++ enc_store dst'
      | _ => [-995]
      end
    | _ => [-997]
    end
  | _ => [-997]
  end.

Definition run (f : Z) (args : list Z) : list Z :=
  match f, args with
  | 1, idx :: ci :: s =>
      match nth_error all_regexes (Z.to_nat idx) with
      | Some r => match rmatch (zb ci) r s with Some c => 1 :: enc_caps c | None => [0] end
      | None => [-998]
      end
  | 2, a :: b :: c :: d :: rest =>
      let fl := mkFlags (zb a) (zb b) (zob c) (zob d) in
      let '(st, rest) := take_opt rest in
      let '(en, rest) := take_opt rest in
      match rest with
      | mt :: k :: isdir :: rest =>
        let '(src, rest) := take_word rest in
        let '(dest, _) := take_word rest in
        let ev := mkEvent (kind_of k) (zb isdir) src dest in
        match select_regexes fl with
        | [] => [3]
        | rs =>
          match dispatch_rs rs st en (zb mt) ev with
          | Dropped => [0]
          | Raises => [2]
          | Deliver k' s' d' => 1 :: kind_code k' :: enc_word s' ++ enc_word d'
          end
        end
      | _ => [-997]
      end
  | 3, [] => enc_paths u_paths
  | 5, p => enc_paths (u_moves p)
  | 4, a :: b :: c :: d :: rest =>
      let fl := mkFlags (zb a) (zb b) (zob c) (zob d) in
      let '(st, rest) := take_opt rest in
      let '(en, p) := take_opt rest in
      [bz (listable fl st en p)]
  | 7, [] => flat_map (fun w => enc_oz (fst w) ++ enc_oz (snd w)) u_windows
  | 8, a :: b :: c :: d :: [] =>
      map (fun x => match x with RxDrfDmd => 0 | RxDrf => 1 | RxDmd => 2 | RxDrfDmdProp => 3
                             | RxDrfProp => 4 | RxDmdProp => 5 end)
          (select (mkFlags (zb a) (zb b) (zob c) (zob d)))
  | 9, a :: b :: c :: d :: rest =>
      (* one source path, n destinations: rows for created/modified/deleted (file), created (dir),
         moved to each destination (file), moved to the first destination (dir); each row = the
         outcome code under every window of u_windows *)
      let fl := mkFlags (zb a) (zb b) (zob c) (zob d) in
      let '(src, rest) := take_word rest in
      let dests := take_words rest in
      match select_regexes fl with
      | [] => [3]
      | rs =>
        let sm := classify rs src in
        let row (ev : event) (dm : option tinfo) :=
          map (fun w => code_of ev (dispatch_core (fst w) (snd w) true ev sm dm)) u_windows in
        row (mkEvent Created false src []) None ++ row (mkEvent Modified false src []) None ++
        row (mkEvent Deleted false src []) None ++ row (mkEvent Created true src []) None ++
        flat_map (fun q => row (mkEvent Moved false src q) (classify rs q)) dests ++
        match dests with q :: _ => row (mkEvent Moved true src q) (classify rs q) | [] => [] end
      end
  | 20, _ => run_listing args
  | 30, _ => run_transfer args
  | _, _ => [-999]
  end.

Extraction "Extract/listing_model.ml" run.
