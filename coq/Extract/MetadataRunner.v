(* Extraction of the Digital Metadata models (C13, C12, C20). ExtrOcamlBasic only. *)
From Coq Require Import ZArith List.
From DRF Require Import Base.Civil Model.Ld80 Model.MdPlace.
Require Extraction.
Require Import ExtrOcamlBasic.
Import ListNotations.
Local Open Scope Z_scope.

Definition arith_of (a : Z) : arith := if a =? 0 then Exact else LongDouble.

Definition flat_pairs (l : list (Z * Z)) : list Z := flat_map (fun p => [fst p; snd p]) l.

Definition run (f : Z) (args : list Z) : list Z :=
  match f, args with
  (* C13: writer path of a sample *)
  | 1, [a; n; d; fcs; scs; k] => let '(sub, ts) := w_path (arith_of a) (mkCfg n d fcs scs) k in [sub; ts]
  (* C13: reader candidate files of a range *)
  | 2, [a; n; d; fcs; scs; s0; s1] => flat_pairs (candidates (arith_of a) (mkCfg n d fcs scs) s0 s1)
  (* calendar fields of a subdirectory timestamp (the name strings themselves are evaluated by
     vm_compute inside Coq on a sample each run: the shared driver cannot link a model that
     extracts Coq's [string]) *)
  | 3, [sub] => let '(y, mo, dd, hh, mi, ss) := time_parts sub in [y; mo; dd; hh; mi; ss]
  | _, _ => [-999]
  end.

Extraction "Extract/metadata_model.ml" run.
