(* Extraction of the Digital Metadata models (C13, C12, C20). ExtrOcamlBasic only. *)
From Coq Require Import ZArith List.
From DRF Require Import Base.Civil Model.Ld80 Model.MdPlace Model.MdStore Model.MdLive.
Require Extraction.
Require Import ExtrOcamlBasic.
Import ListNotations.
Local Open Scope Z_scope.

Definition arith_of (a : Z) : arith := if a =? 0 then Exact else if a =? 1 then LongDouble else U64Wrap.

Definition flat_pairs (l : list (Z * Z)) : list Z := flat_map (fun p => [fst p; snd p]) l.

(* ---- C12/C20: a write history followed by queries -------------------------------------------
   args: arith gsort ffedge  n d fc sc  ncalls (len k v ...)*  nq (kind a b)*
   out : ncalls status*   then per query: status len item*
   kinds: 0 get_bounds | 1 read(a,b) | 2 read(a,b,ffill) | 3 read_latest | 4 read() | 5 read(a)
          | 6 read(a, method=ffill) | 7 dump of the directory (sub ts index tag)* *)
Definition variant_of (a g e : Z) : variant :=
  mkVar (arith_of a) (if g =? 0 then IntSort else StrSort) (if e =? 0 then Clipped else WholeFile).

Fixpoint take_pairs (n : nat) (l : list Z) : list sample * list Z :=
  match n, l with
  | S n', k :: v :: r => let '(ps, rest) := take_pairs n' r in ((k, v) :: ps, rest)
  | _, _ => ([], l)
  end.
Fixpoint parse_calls (n : nat) (l : list Z) : list (list sample) * list Z :=
  match n, l with
  | S n', len :: r =>
      let '(ps, rest) := take_pairs (Z.to_nat len) r in
      let '(cs, rest') := parse_calls n' rest in (ps :: cs, rest')
  | _, _ => ([], l)
  end.
Fixpoint parse_queries (n : nat) (l : list Z) : list (Z * Z * Z) :=
  match n, l with
  | S n', k :: a :: b :: r => (k, a, b) :: parse_queries n' r
  | _, _ => []
  end.

Fixpoint run_calls (a : arith) (c : cfg) (st : store) (calls : list (list sample)) : store * list Z :=
  match calls with
  | [] => (st, [])
  | l :: r => let '(st', ok) := write_call a c st l in
              let '(st'', oks) := run_calls a c st' r in (st'', (if ok then 1 else 0) :: oks)
  end.

Definition out_rres (r : rres) : list Z :=
  match r with
  | ROk l => 0 :: Z.of_nat (length l) :: flat_pairs l
  | RValueError => [1; 0]
  | RIOError => [2; 0]
  end.

Definition run_query (va : variant) (c : cfg) (st : store) (q : Z * Z * Z) : list Z :=
  let '(kind, a, b) := q in
  match kind with
  | 0 => match get_bounds va st with Some (lo, hi) => [0; 1; lo; hi] | None => [2; 0] end
  | 1 => out_rres (read va c st (Some a) (Some b) false)
  | 2 => out_rres (read va c st (Some a) (Some b) true)
  | 3 => out_rres (read_latest va c st)
  | 4 => out_rres (read va c st None None false)
  | 5 => out_rres (read va c st (Some a) None false)
  | 6 => out_rres (read va c st (Some a) None true)
  | 7 => 0 :: Z.of_nat (length st) :: flat_map (fun e => let '(s, t, k, v) := e in [s; t; k; v]) st
  | _ => [-999]
  end.

Definition run_history (args : list Z) : list Z :=
  match args with
  | a :: g :: e :: n :: d :: fcs :: scs :: ncalls :: r =>
      let va := variant_of a g e in
      let c := mkCfg n d fcs scs in
      let '(calls, rest) := parse_calls (Z.to_nat ncalls) r in
      let '(st, oks) := run_calls (v_arith va) c [] calls in
      match rest with
      | nq :: qs =>
          Z.of_nat (length oks) :: oks ++ flat_map (run_query va c st) (parse_queries (Z.to_nat nq) qs)
      | [] => Z.of_nat (length oks) :: oks
      end
  | _ => [-999]
  end.

(* ---- C20: an interleaved history --------------------------------------------------------------
   args: n d fc sc nops op*    op = 0 len (k v)* | 1 | 2 r | 3 r s0 s1 ff | 4 r
   out : per op  0 ok | 1 | 2 0 | 2 1 lo hi | 3 status len (k v)* | 4 *)
Fixpoint parse_ops (n : nat) (l : list Z) : list op :=
  match n with
  | O => []
  | S n' =>
      match l with
      | 0 :: len :: r => let '(ps, rest) := take_pairs (Z.to_nat len) r in OWrite ps :: parse_ops n' rest
      | 1 :: r => ONewReader :: parse_ops n' r
      | 2 :: i :: r => OBounds (Z.to_nat i) :: parse_ops n' r
      | 3 :: i :: s0 :: s1 :: ff :: r => ORead (Z.to_nat i) s0 s1 (negb (ff =? 0)) :: parse_ops n' r
      | 4 :: i :: r => OLatest (Z.to_nat i) :: parse_ops n' r
      | _ => []
      end
  end.

Definition out_obs (o : obs) : list Z :=
  match o with
  | ObsWrite ok => [0; if ok then 1 else 0]
  | ObsReader => [1]
  | ObsBounds None => [2; 0]
  | ObsBounds (Some (lo, hi)) => [2; 1; lo; hi]
  | ObsRead r => 3 :: out_rres r
  | ObsNoReader => [4]
  end.

Definition run_live (args : list Z) : list Z :=
  match args with
  | n :: d :: fcs :: scs :: nops :: r =>
      flat_map out_obs (snd (exec (init (mkCfg n d fcs scs)) (parse_ops (Z.to_nat nops) r)))
  | _ => [-999]
  end.

Definition run (f : Z) (args : list Z) : list Z :=
  match f, args with
  (* C13: writer path of a sample *)
  | 1, [a; n; d; fcs; scs; k] => let '(sub, ts) := w_path (arith_of a) (mkCfg n d fcs scs) k in [sub; ts]
  (* C13: reader candidate files of a range *)
  | 2, [a; n; d; fcs; scs; s0; s1] => flat_pairs (candidates (arith_of a) (mkCfg n d fcs scs) s0 s1)
  (* calendar fields of a subdirectory timestamp (the name strings themselves are evaluated by
     vm_compute inside Coq on a sample each run: the shared driver cannot link a model that
     extracts Coq's [string]) *)
  | 3, [sub] => let '(y, mo, dd, hh, mi, ss) := time_parts sub in [y; mo; dd; hh; mi; ss]
  | 10, _ => run_history args
  | 20, _ => run_live args
  (* C13: re-opening a channel created with (n d fc sc) with parameters (n' d' fc' sc') *)
  | 30, [n; d; fcs; scs; n'; d'; fcs'; scs'] =>
      match open_writer (mkFs (mkCfg n d fcs scs) [] []) (mkCfg n' d' fcs' scs') with
      | Some _ => [1] | None => [0] end
  | _, _ => [-999]
  end.

Extraction "Extract/metadata_model.ml" run.
