(* Extraction of the ring-buffer model (C16). ExtrOcamlBasic only.
   run 1 (size :: count :: dur :: variant :: ops)  ->  the state after every step.
   -1 encodes "no limit"; variant 0 = CountOnce, 1 = CountTwice.  A path is three integers.
   ops: 1 p | 2 p | 3 p | 4 p q | 5 sort n p.. | 6 sort n p.. | 7 n p.. | 8 n p.. | 9 p size | 10 p
   Dump per step: err act  nrecs [p size]..  nqueues [g len p..]..  ndisk [p size]..  ndel_new [p why]..  *)
From Coq Require Import ZArith List Bool.
From DRF Require Import Model.Ringbuffer.
Require Extraction.
Require Import ExtrOcamlBasic.
Import ListNotations.
Local Open Scope Z_scope.

Definition opt (z : Z) : option Z := if z <? 0 then None else Some z.

Fixpoint take_paths (n : nat) (l : list Z) : list path * list Z :=
  match n, l with
  | S n', g :: k :: s :: r => let '(ps, rest) := take_paths n' r in (mkP g k s :: ps, rest)
  | _, _ => ([], l)
  end.

Fixpoint parse_ops (fuel : nat) (l : list Z) : list op :=
  match fuel with
  | O => []
  | S f =>
    match l with
    | 1 :: g :: k :: s :: r => Created (mkP g k s) :: parse_ops f r
    | 2 :: g :: k :: s :: r => Modified (mkP g k s) :: parse_ops f r
    | 3 :: g :: k :: s :: r => Deleted (mkP g k s) :: parse_ops f r
    | 4 :: g :: k :: s :: g' :: k' :: s' :: r => Moved (mkP g k s) (mkP g' k' s') :: parse_ops f r
    | 5 :: b :: n :: r => let '(ps, rest) := take_paths (Z.to_nat n) r in AddFiles ps (negb (b =? 0)) :: parse_ops f rest
    | 6 :: b :: n :: r => let '(ps, rest) := take_paths (Z.to_nat n) r in ModifyFiles ps (negb (b =? 0)) :: parse_ops f rest
    | 7 :: n :: r => let '(ps, rest) := take_paths (Z.to_nat n) r in RemoveFiles ps :: parse_ops f rest
    | 8 :: n :: r => let '(ps, rest) := take_paths (Z.to_nat n) r in Rescan ps :: parse_ops f rest
    | 9 :: g :: k :: s :: sz :: r => EnvWrite (mkP g k s) sz :: parse_ops f r
    | 10 :: g :: k :: s :: r => EnvRemove (mkP g k s) :: parse_ops f r
    | _ => []
    end
  end.

Definition dump_path (p : path) : list Z := [pg p; pk p; ps p].
Definition dump_recs (l : list (path * Z)) : list Z :=
  Z.of_nat (length l) :: flat_map (fun a => dump_path (fst a) ++ [snd a]) l.
Definition dump_qs (l : list (Z * list path)) : list Z :=
  Z.of_nat (length l) :: flat_map (fun a => fst a :: Z.of_nat (length (snd a)) :: flat_map dump_path (snd a)) l.
Definition dump_dels (l : list del) : list Z :=
  Z.of_nat (length l) :: flat_map (fun d => dump_path (d_path d) ++ [d_why d]) l.

Definition dump (ndel_before : nat) (s : st) : list Z :=
  [if err s then 1 else 0; act (h s)] ++ dump_recs (recs (h s)) ++ dump_qs (qs (h s))
  ++ dump_recs (disk s) ++ dump_dels (skipn ndel_before (dels s)).

Fixpoint run_dump (c : cfg) (s : st) (l : list op) : list Z :=
  match l with
  | [] => []
  | o :: r => let s' := step c s o in dump (length (dels s)) s' ++ run_dump c s' r
  end.

Definition run (f : Z) (args : list Z) : list Z :=
  match f, args with
  | 1, sz :: cnt :: dur :: v :: r =>
      run_dump (mkCfg (opt sz) (opt cnt) (opt dur) (if v =? 0 then CountOnce else CountTwice))
               init (parse_ops (length r) r)
  | _, _ => [-999]
  end.

Extraction "Extract/ringbuffer_model.ml" run.
