(* Extraction of the time-conversion / layout models (C03, C04). ExtrOcamlBasic only. *)
From Coq Require Import ZArith List String.
From DRF Require Import Base.U64 Base.Dec Base.Civil Gen.TimeConvGen Gen.LayoutGen.
Require Extraction.
Require Import ExtrOcamlBasic.
Import ListNotations.
Local Open Scope Z_scope.

Definition run (f : Z) (args : list Z) : list Z :=
  match f, args with
  | 1, [k; n; d] => let '(rc, s, p) := digital_rf_get_timestamp_floor k n d in [rc; s; p]
  | 2, [s; p; n; d] => let '(rc, k) := digital_rf_get_sample_ceil s p n d in [rc; k]
  | 3, [k; n; d] =>
      let '(rc, y, mo, dd, hh, mi, ss, p) := digital_rf_get_unix_time_rational k n d in
      [rc; y; mo; dd; hh; mi; ss; p]
  | 4, [t] => let '(y, mo, dd, hh, mi, ss) := time_parts t in [y; mo; dd; hh; mi; ss]
  | 5, [start; n; d; sc; fc; k] =>
      let '(rc, nleft, maxs, subdir, base) := digital_rf_get_subdir_file start n d sc fc k in
      [rc; nleft; maxs; Z.of_nat (String.length subdir)] ++ codes subdir ++ codes base
  | _, _ => [-999]
  end.

Extraction "Extract/timeconv_model.ml" run.
