(* Extraction of the writer protocol model (C02, C09, C10). ExtrOcamlBasic only.
   Everything is integers:
     path    = 4 ints: 0 0 tmp 0 (properties) | 1 d 0 0 (sub-directory) | 2 d tmp k (data file)
     op      = 10 ints: kind, path a, path b (rename destination, else zeros), tag
               kind: 1 mkdir 2 probe 3 create_excl 4 create_trunc 5 write 6 truncate 7 close 8 rename 9 unlink
     node    = 2 ints: 0 0 absent | 1 0 directory | 2 0 partial | 3 0 partial, damaged | 4 tag complete
     recording = n kinds.. (props, inside H5Fcreate)  n kinds.. (props, inside H5Fclose)
                 ncalls { nparts { d k tag npre (kind phase).. nclose kinds.. } }
               low kind: 0 write 1 truncate;  phase: 0 create 1 meta 2 data 3 index
   f = 1: run        args = props_variant close_variant fault_at fault_persist recording
          -> init_ok ncalls outcomes.. has_failure unchecked_fault nops { op result node(a) node(b) }..
             (result: 0 ok, else errno, -1 injected; nodes are those of the FINAL state)
   f = 2: acceptor   args = props_variant nops ops..      -> number of operations accepted, nops
   f = 3: crash states  args = nops ops.. npaths paths..  -> for i = 0..nops, for each path: node
   f = 5: reader pass on a crash state  args = nops ops.. i ncands (d k)..
          -> channel_opens 0 failed nread (k tag)..
   (Coq strings are kept out of the extraction; names are compared through vm_compute.) *)
From Coq Require Import ZArith List.
From DRF Require Import Base.Fs Model.WriterProto.
Require Extraction.
Require Import ExtrOcamlBasic.
Import ListNotations.
Local Open Scope Z_scope.

Definition hd0 (l : list Z) : Z := match l with x :: _ => x | [] => 0 end.

Fixpoint take_n {A} (n : nat) (f : list Z -> A * list Z) (l : list Z) : list A * list Z :=
  match n with
  | O => ([], l)
  | S n' => let '(a, l1) := f l in let '(r, l2) := take_n n' f l1 in (a :: r, l2)
  end.

Definition p_counted {A} (f : list Z -> A * list Z) (l : list Z) : list A * list Z :=
  match l with
  | n :: r => take_n (Z.to_nat n) f r
  | [] => ([], [])
  end.

Definition p_z (l : list Z) : Z * list Z := match l with x :: r => (x, r) | [] => (0, []) end.
Definition p_kind (l : list Z) : lowkind * list Z :=
  let '(x, r) := p_z l in ((if x =? 0 then LW else LT), r).
Definition phase_of (x : Z) : phase :=
  if x =? 0 then PhCreate else if x =? 1 then PhMeta else if x =? 2 then PhData else PhIndex.
Definition p_pre (l : list Z) : (lowkind * phase) * list Z :=
  let '(k, r) := p_kind l in let '(ph, r2) := p_z r in ((k, phase_of ph), r2).

Definition p_part (l : list Z) : filepart * list Z :=
  let '(d, l1) := p_z l in
  let '(k, l2) := p_z l1 in
  let '(tag, l3) := p_z l2 in
  let '(pre, l4) := p_counted p_pre l3 in
  let '(cl, l5) := p_counted p_kind l4 in
  (mkPart d k pre cl tag, l5).

Definition p_rec (l : list Z) : recording * list Z :=
  let '(pc, l1) := p_counted p_kind l in
  let '(pl, l2) := p_counted p_kind l1 in
  let '(cs, l3) := p_counted (p_counted p_part) l2 in
  (mkRec pc pl cs, l3).

Definition p_path (l : list Z) : path * list Z :=
  match l with
  | a :: b :: c :: d :: r =>
      ((if a =? 0 then PProps (negb (c =? 0)) else if a =? 1 then PDir b else PData b (negb (c =? 0)) d), r)
  | _ => (PProps false, [])
  end.

Definition p_op (l : list Z) : op * list Z :=
  let '(kind, l1) := p_z l in
  let '(a, l2) := p_path l1 in
  let '(b, l3) := p_path l2 in
  let '(tag, l4) := p_z l3 in
  ((if kind =? 1 then Mkdir a else if kind =? 2 then Probe a else if kind =? 3 then CreateExcl a
    else if kind =? 4 then CreateTrunc a else if kind =? 5 then Write a else if kind =? 6 then Truncate a
    else if kind =? 7 then CloseFd a tag else if kind =? 8 then Rename a b else Unlink a), l4).

Definition e_bool (b : bool) : Z := if b then 1 else 0.
Definition e_path (p : path) : list Z :=
  match p with
  | PProps t => [0; 0; e_bool t; 0]
  | PDir d => [1; d; 0; 0]
  | PData d t k => [2; d; e_bool t; k]
  end.
Definition e_op (o : op) : list Z :=
  let z := [0; 0; 0; 0] in
  match o with
  | Mkdir p => 1 :: e_path p ++ z ++ [0]
  | Probe p => 2 :: e_path p ++ z ++ [0]
  | CreateExcl p => 3 :: e_path p ++ z ++ [0]
  | CreateTrunc p => 4 :: e_path p ++ z ++ [0]
  | Write p => 5 :: e_path p ++ z ++ [0]
  | Truncate p => 6 :: e_path p ++ z ++ [0]
  | CloseFd p t => 7 :: e_path p ++ z ++ [t]
  | Rename p q => 8 :: e_path p ++ e_path q ++ [0]
  | Unlink p => 9 :: e_path p ++ z ++ [0]
  end.
Definition e_res (r : res) : Z := match r with Ok => 0 | Err e => e end.
Definition e_node (n : option node) : list Z :=
  match n with
  | None => [0; 0]
  | Some Dir => [1; 0]
  | Some (File (Partial false)) => [2; 0]
  | Some (File (Partial true)) => [3; 0]
  | Some (File (Complete t)) => [4; t]
  end.
Definition op_source (o : op) : path := match o with Rename p _ => p | _ => op_target o end.

Definition run_model (args : list Z) : list Z :=
  match args with
  | vp :: vc :: fat :: fper :: r =>
      let v := mkVar (if vp =? 0 then Direct else Staged) (if vc =? 0 then Ignored else Checked) in
      let F := Build_fault (Z.to_nat fat) (negb (fper =? 0)) in
      let '(rc, _) := p_rec r in
      let rs := wrun F v rc in
      let w := rs_w rs in
      let evs := rev (w_trace w) in
      [e_bool (rs_init rs); Z.of_nat (List.length (rs_out rs))] ++ map e_bool (rs_out rs)
      ++ [e_bool (w_hf w); e_bool (w_ud w); Z.of_nat (List.length evs)]
      ++ flat_map (fun e => e_op (fst e) ++ [e_res (snd e)] ++ e_node (w_fs w (op_source (fst e)))
                              ++ e_node (w_fs w (op_target (fst e)))) evs
  | _ => [-999]
  end.

Fixpoint accepted (pv : props_publication) (ps : pstate) (s : fs) (t : list op) (n : Z) : Z :=
  match t with
  | [] => n
  | o :: r =>
      match pstep pv ps s o with
      | Some ps' => accepted pv ps' (fst (apply o s)) r (n + 1)
      | None => n
      end
  end.

Fixpoint states (t : list op) (s : fs) : list fs :=
  s :: match t with [] => [] | o :: r => states r (fst (apply o s)) end.

Definition p_cand (l : list Z) : (Z * Z) * list Z :=
  let '(d, l1) := p_z l in let '(k, l2) := p_z l1 in ((d, k), l2).

Definition run (f : Z) (args : list Z) : list Z :=
  match f with
  | 1 => run_model args
  | 2 =>
      match args with
      | vp :: r =>
          let '(t, _) := p_counted p_op r in
          [accepted (if vp =? 0 then Direct else Staged) PsStart empty_fs t 0; Z.of_nat (List.length t)]
      | _ => [-999]
      end
  | 3 =>
      let '(t, r) := p_counted p_op args in
      let '(ps, _) := p_counted p_path r in
      flat_map (fun s => flat_map (fun p => e_node (s p)) ps) (states t empty_fs)
  | 5 =>
      let '(t, r) := p_counted p_op args in
      let '(i, r1) := p_z r in
      let '(cands, _) := p_counted p_cand r1 in
      let s := crash_state t (Z.to_nat i) empty_fs in
      match read_pass s cands with
      | None => [e_bool (open_channel s); 0; 1; 0]
      | Some l => [e_bool (open_channel s); 0; 0; Z.of_nat (List.length l)]
                  ++ flat_map (fun kt => [fst kt; snd kt]) l
      end
  | _ => [-999]
  end.

Extraction "Extract/proto_model.ml" run.
