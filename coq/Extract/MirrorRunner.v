(* Extraction of the mirror model (C17). ExtrOcamlBasic only.
   run 1 (meth :: same_fs :: linkable :: drf :: dmd :: events)   meth 0 copy, 1 move, 2 link
   events: 1 p c write | 2 p remove | 3 p created | 4 p modified | 5 p deleted | 6 p q moved
   output per event: nfops [code p ndel deleted..].. then the state:
     nsrc [p c]..  ndst [tmp p c ok]..  ntracked [p]..  ringerr
   fop codes: 1 envwrite 2 envremove 3 copybegin 4 copyend 5 link 6 renamein 7 unlinksrc 8 rename 9 ring 10 nolink *)
From Coq Require Import ZArith List Bool.
From DRF Require Import Model.Ringbuffer Model.Mirror.
Require Extraction.
Require Import ExtrOcamlBasic.
Import ListNotations.
Local Open Scope Z_scope.

Fixpoint parse_evs (fuel : nat) (l : list Z) : list mev :=
  match fuel with
  | O => []
  | S f =>
    match l with
    | 1 :: g :: k :: s :: c :: r => EWrite (mkP g k s) c :: parse_evs f r
    | 2 :: g :: k :: s :: r => ERemove (mkP g k s) :: parse_evs f r
    | 3 :: g :: k :: s :: r => ECreated (mkP g k s) :: parse_evs f r
    | 4 :: g :: k :: s :: r => EModified (mkP g k s) :: parse_evs f r
    | 5 :: g :: k :: s :: r => EDeleted (mkP g k s) :: parse_evs f r
    | 6 :: g :: k :: s :: g' :: k' :: s' :: r => EMoved (mkP g k s) (mkP g' k' s') :: parse_evs f r
    | _ => []
    end
  end.

Definition dp (p : path) : list Z := [pg p; pk p; ps p].
Definition op_path (o : op) : path :=
  match o with
  | Created p | Modified p | Deleted p | EnvRemove p | EnvWrite p _ => p
  | Moved _ q => q
  | _ => mkP 0 0 0
  end.
Definition fop_code (f : fop) : Z * path :=
  match f with
  | FEnvWrite p _ => (1, p) | FEnvRemove p => (2, p)
  | FCopyBegin p _ => (3, p) | FCopyEnd p _ => (4, p) | FLink p _ => (5, p)
  | FRenameIn p _ => (6, p) | FUnlinkSrc p => (7, p)
  | FRename _ b => (8, match b with Fin p => p | Tmp p => p end)
  | FNoLink p => (10, p)
  | FRing o => (9, op_path o)
  end.

Fixpoint dump_fops (s : mst) (l : list fop) : list Z :=
  match l with
  | [] => []
  | f :: r =>
    let s' := apply_fop s f in
    let nd := skipn (length (dels (ring s))) (dels (ring s')) in
    let '(c, p) := fop_code f in
    (c :: dp p) ++ (Z.of_nat (length nd) :: flat_map (fun d => dp (d_path d)) nd) ++ dump_fops s' r
  end.

Definition dump_state (s : mst) : list Z :=
  (Z.of_nat (length (src s)) :: flat_map (fun a => dp (fst a) ++ [snd a]) (src s)) ++
  (Z.of_nat (length (dst s)) ::
     flat_map (fun a => (match fst a with Fin p => 0 :: dp p | Tmp p => 1 :: dp p end)
                        ++ [dc (snd a); if dok (snd a) then 1 else 0]) (dst s)) ++
  (Z.of_nat (length (recs (h (ring s)))) :: flat_map (fun a => dp (fst a)) (recs (h (ring s)))) ++
  [if err (ring s) then 1 else 0].

Fixpoint run_dump (mc : mcfg) (s : mst) (evs : list mev) : list Z :=
  match evs with
  | [] => []
  | e :: r =>
    let l := event_fops mc s e in
    let s' := exec s l in
    (Z.of_nat (length l) :: dump_fops s l) ++ dump_state s' ++ run_dump mc s' r
  end.

Definition run (f : Z) (args : list Z) : list Z :=
  match f, args with
  | 1, m :: sf :: lk :: fr :: fm :: r =>
      run_dump (mkM (if m =? 0 then MCopy else if m =? 1 then MMove else MLink) (negb (sf =? 0)) (negb (lk =? 0))
                    (negb (fr =? 0)) (negb (fm =? 0)))
               minit (parse_evs (length r) r)
  | _, _ => [-999]
  end.

Extraction "Extract/mirror_model.ml" run.
