(* Generic driver for the extracted models.  One case per input line:
     <function id> <int> <int> ...        (decimal, arbitrary size, may be negative)
   output: the result list of Model.run, space separated, one line per case.
   Conversions between decimal text and the extracted binary Z are done here on
   digit arrays, independently of the extracted arithmetic. *)
(* no `open Model`: the extracted module may define its own `string`, `list` helpers etc. *)

(* decimal string (no sign) -> bits, least significant first *)
let bits_of_dec (s : string) : bool list =
  let d = Array.init (String.length s) (fun i -> Char.code s.[i] - 48) in
  Array.iter (fun x -> if x < 0 || x > 9 then failwith ("bad number " ^ s)) d;
  let n = Array.length d in
  let is_zero () = Array.for_all (fun x -> x = 0) d in
  let acc = ref [] in
  while not (is_zero ()) do
    let rem = ref 0 in
    for i = 0 to n - 1 do
      let cur = !rem * 10 + d.(i) in
      d.(i) <- cur / 2; rem := cur mod 2
    done;
    acc := (!rem = 1) :: !acc
  done;
  List.rev !acc

let rec pos_of_bits = function
  | [] -> failwith "zero positive"
  | [true] -> Model.XH
  | b :: r -> if b then Model.XI (pos_of_bits r) else Model.XO (pos_of_bits r)
(* strip high zero bits *)
let pos_of_bits l =
  let rec strip = function false :: r -> strip r | l -> l in
  pos_of_bits (List.rev (strip (List.rev l)))

let z_of_string (s : string) : Model.z =
  let neg = String.length s > 0 && s.[0] = '-' in
  let body = if neg then String.sub s 1 (String.length s - 1) else s in
  match bits_of_dec body with
  | [] -> Model.Z0
  | bs -> if neg then Model.Zneg (pos_of_bits bs) else Model.Zpos (pos_of_bits bs)

let rec bits_of_pos = function Model.XH -> [true] | Model.XO p -> false :: bits_of_pos p | Model.XI p -> true :: bits_of_pos p

let dec_of_bits (bs : bool list) : string =
  (* bs least significant first; digits little endian in a growing buffer *)
  let digits = ref [| 0 |] in
  let double_add c =
    let carry = ref c in
    let d = !digits in
    for i = 0 to Array.length d - 1 do
      let v = d.(i) * 2 + !carry in
      d.(i) <- v mod 10; carry := v / 10
    done;
    if !carry > 0 then digits := Array.append d [| !carry |] in
  List.iter (fun b -> double_add (if b then 1 else 0)) (List.rev bs);
  let d = !digits in
  let n = Array.length d in
  String.init n (fun i -> Char.chr (48 + d.(n - 1 - i)))

let string_of_z = function
  | Model.Z0 -> "0"
  | Model.Zpos p -> dec_of_bits (bits_of_pos p)
  | Model.Zneg p -> "-" ^ dec_of_bits (bits_of_pos p)

let () =
  try
    while true do
      let line = input_line stdin in
      let toks = List.filter (fun s -> s <> "") (String.split_on_char ' ' line) in
      match toks with
      | [] -> print_newline ()
      | f :: args ->
        let r = Model.run (z_of_string f) (List.map z_of_string args) in
        print_endline (String.concat " " (List.map string_of_z r))
    done
  with End_of_file -> ()
