(* Extraction of the RF reader model (C08; reused by C01 for reading files produced by a writer
   model).  ExtrOcamlBasic only.  Sample type V := list Z (one rf_data row = the values of the
   subchannels; the harness writes a distinct integer tag into every element).

   run 1 args  -- one channel and a battery of queries in ONE case; the result is the
                  concatenation of the answers, each prefixed by its length.
     args    = lk sq n d fc sc nsub ndirs <dir>.. nq <query>..
       lk      0 ExactRational | 1 LongDouble           (variant of _get_file_list)
       sq      0 SqueezeAxis1  | 1 SqueezeAll           (variant of read_vector_raw)
       n d     sample rate numerator / denominator;  fc file cadence [ms];  sc subdir cadence [s]
       nsub    number of subchannels (width of a data row)
     <dir>   = nfiles <file>..            a top-level directory: files in listing order
     <file>  = sub ms nrows {g o}.. ndata v..      sub: subdirectory timestamp [s]; ms: file time [ms];
                                                 rows of rf_data_index; ndata rf_data rows of nsub values
     <query> (queries 1-6 use all directories, 7.. only the first):
       1 s e sub   read(s, e, sub_channel = sub or -1 for None)
                     -> nblocks {start len v..}..     v..: len x width values, width = nsub or 1
       2 s e       get_continuous_blocks -> nblocks {start len}..
       3 s L sub   read_vector_raw -> 0 ndim dims.. v..  |  1 (IOError)  |  2 (TypeError)
       4           get_bounds -> hasfirst first haslast last
       5 s e       _get_file_list -> ncand {sub ms}..
       6 k         get_properties(sample=k) -> 0 ms (attributes of that file) | 1 IOError | 2 ValueError
       7           FilesInv checker on the first directory -> 0 | 1
       8 s e       Spec: runs (files_abs dir0) s e   (same format as query 1; cost ~ e - s)
       9           dirs_ok checker (all directories FilesInv, no file period twice) -> 0 | 1
   Inside Coq (e.g. for C01): `read ExactRational c fs s e : list (Z * list V)` with
   `c := mkCfg n d fc sc` and `fs : list (rfile V)` built with `mkFile sub ms index data`, files in
   ascending file time; `Proofs.ReaderProofs.reader_refines : FilesInv c fs -> read ExactRational c fs
   s e = runs (files_abs fs) s e`, and `files_inv_b_sound` turns the executable check into FilesInv.
   run 2 [k; n; d] -> [secs exact; ms exact; secs longdouble; ms longdouble]   (time of a sample) *)
From Coq Require Import ZArith List.
From DRF Require Import Base.Runs Model.Ld80 Model.ReaderCore.
Require Extraction.
Require Import ExtrOcamlBasic.
Import ListNotations.
Local Open Scope Z_scope.

Definition row := list Z.

Fixpoint take_pairs (n : nat) (l : list Z) : list (Z * Z) * list Z :=
  match n with
  | O => ([], l)
  | S n' => match l with
            | a :: b :: r => let '(ps, rest) := take_pairs n' r in ((a, b) :: ps, rest)
            | _ => ([], [])
            end
  end.

Fixpoint take_rows (n w : nat) (l : list Z) : list row * list Z :=
  match n with
  | O => ([], l)
  | S n' => let '(rs, rest) := take_rows n' w (skipn w l) in (firstn w l :: rs, rest)
  end.

Definition take_file (w : nat) (l : list Z) : rfile row * list Z :=
  match l with
  | sub :: ms :: nrows :: r =>
      let '(idx, r1) := take_pairs (Z.to_nat nrows) r in
      match r1 with
      | ndata :: r2 => let '(dat, r3) := take_rows (Z.to_nat ndata) w r2 in
                       (mkFile sub ms idx dat, r3)
      | [] => (mkFile sub ms idx [], [])
      end
  | _ => (mkFile 0 0 [] [], [])
  end.

Fixpoint take_files (n w : nat) (l : list Z) : list (rfile row) * list Z :=
  match n with
  | O => ([], l)
  | S n' => let '(f, r) := take_file w l in let '(fs, r') := take_files n' w r in (f :: fs, r')
  end.

Fixpoint take_dirs (n w : nat) (l : list Z) : list (list (rfile row)) * list Z :=
  match n with
  | O => ([], l)
  | S n' => match l with
            | nf :: r => let '(fs, r1) := take_files (Z.to_nat nf) w r in
                         let '(ds, r2) := take_dirs n' w r1 in (fs :: ds, r2)
            | [] => ([], [])
            end
  end.

Definition sel_of (sub : Z) : row -> row :=
  if sub <? 0 then (fun r => r) else (fun r => [nth (Z.to_nat sub) r (-777)]).

Definition enc_blocks (bs : list (@block row)) : list Z :=
  Z.of_nat (length bs) ::
  flat_map (fun b => fst b :: Z.of_nat (length (snd b)) :: concat (snd b)) bs.

Definition enc_lens (bs : list (Z * Z)) : list Z :=
  Z.of_nat (length bs) :: flat_map (fun b => [fst b; snd b]) bs.

Definition enc_opt (o : option Z) : list Z := match o with Some x => [1; x] | None => [0; 0] end.

Definition answer (lk : lookup) (sq : squeeze) (c : cfg) (nsub : Z) (dirs : list (list (rfile row)))
  (q : Z) (a1 a2 a3 : Z) : list Z :=
  let d0 := hd [] dirs in
  match q with
  | 1 => enc_blocks (read_multi (sel_of a3) lk c dirs a1 a2)
  | 2 => enc_lens (get_continuous_blocks_multi lk c dirs a1 a2)
  | 3 => if a2 <? 1 then [1] else
         match vector_of_blocks sq (0 <=? a3) nsub a2 (read_multi (sel_of a3) lk c dirs a1 (a1 + (a2 - 1))) with
         | VOk dims dat => 0 :: Z.of_nat (length dims) :: dims ++ concat dat
         | VIOError => [1]
         | VTypeError => [2]
         end
  | 4 => let '(f, l) := get_bounds_multi dirs in enc_opt f ++ enc_opt l
  | 5 => let l := get_file_list lk c a1 a2 in
         Z.of_nat (length l) :: flat_map (fun p => [fst p; snd p]) l
  | 6 => match get_file_list lk c a1 a1 with
         | [cand] => match first_some (fun fs => find_file fs cand) dirs with
                     | Some f => [0; file_ms f]
                     | None => [1]
                     end
         | _ => [2]
         end
  | 7 => [if files_inv_b c d0 then 1 else 0]
  | 8 => enc_blocks (runs (files_abs d0) a1 a2)
  | 9 => [if dirs_ok_b c dirs then 1 else 0]
  | _ => [-999]
  end.

Definition arity (q : Z) : nat :=
  match q with 1 => 3%nat | 2 => 2%nat | 3 => 3%nat | 5 => 2%nat | 6 => 1%nat | 8 => 2%nat | _ => 0%nat end.

Fixpoint answers (nq : nat) (lk : lookup) (sq : squeeze) (c : cfg) (nsub : Z)
  (dirs : list (list (rfile row))) (l : list Z) : list Z :=
  match nq with
  | O => []
  | S nq' =>
      match l with
      | q :: r =>
          let ar := arity q in
          let a := firstn ar r in
          let out := answer lk sq c nsub dirs q (nth 0 a 0) (nth 1 a 0) (nth 2 a 0) in
          (Z.of_nat (length out) :: out) ++ answers nq' lk sq c nsub dirs (skipn ar r)
      | [] => [-998]
      end
  end.

Definition run (f : Z) (args : list Z) : list Z :=
  match f, args with
  | 1, lk :: sq :: n :: d :: fc :: sc :: nsub :: ndirs :: r =>
      let c := mkCfg n d fc sc in
      let '(dirs, r1) := take_dirs (Z.to_nat ndirs) (Z.to_nat nsub) r in
      match r1 with
      | nq :: r2 => answers (Z.to_nat nq) (if lk =? 0 then ExactRational else LongDouble)
                            (if sq =? 0 then SqueezeAxis1 else SqueezeAll) c nsub dirs r2
      | [] => [-997]
      end
  | 2, [k; n; d] =>
      let c := mkCfg n d 1 1 in
      [sample_secs ExactRational c k; sample_ms ExactRational c k;
       sample_secs LongDouble c k; sample_ms LongDouble c k]
  | _, _ => [-999]
  end.

Extraction "Extract/reader_model.ml" run.
