(* Extraction of the attribute-table model (C06, C11). ExtrOcamlBasic only.
   Protocol (integers only).  An environment is encoded as
     nf (len name, codes.., value)*nf   ns (len name, codes.., len value, codes..)*ns
     nq (len name, codes.., value)*nq   clock
   fid 1 env            -> attributes of a data file           (write_table e file_table)
   fid 2 env            -> attributes of drf_properties.h5     (write_table e prop_table)
   fid 3 env env'       -> [check_existing compare_table compare_final e' (write_table e prop_table)]
   fid 4 env            -> regenerated properties (0 :: attrs) or [-1]
   Attributes are printed as  len name, codes.., tag, payload  with tag 0 = int, 1 = unsigned long
   long (payload: the value), 3 = string (payload: len, codes..). *)
From Coq Require Import ZArith List String.
From DRF Require Import Base.Dec Model.Attrs Gen.AttrTables.
Require Extraction.
Require Import ExtrOcamlBasic.
Import ListNotations.
Local Open Scope Z_scope.

Fixpoint take (n : nat) (l : list Z) : list Z * list Z :=
  match n, l with
  | O, _ => ([], l)
  | S n', x :: tl => let '(a, b) := take n' tl in (x :: a, b)
  | S _, [] => ([], [])
  end.

Definition get_str (l : list Z) : string * list Z :=
  match l with
  | [] => (EmptyString, [])
  | n :: tl => let '(a, b) := take (Z.to_nat n) tl in (of_codes a, b)
  end.

Fixpoint get_nums (k : nat) (l : list Z) : list (string * Z) * list Z :=
  match k with
  | O => ([], l)
  | S k' => let '(nm, r) := get_str l in
            match r with
            | v :: r' => let '(m, r'') := get_nums k' r' in ((nm, v) :: m, r'')
            | [] => ([], [])
            end
  end.

Fixpoint get_strs (k : nat) (l : list Z) : list (string * string) * list Z :=
  match k with
  | O => ([], l)
  | S k' => let '(nm, r) := get_str l in
            let '(v, r') := get_str r in
            let '(m, r'') := get_strs k' r' in ((nm, v) :: m, r'')
  end.

Definition look {A} (d : A) (m : list (string * A)) (n : string) : A :=
  match lookup n m with Some v => v | None => d end.

Definition get_env (l : list Z) : env * list Z :=
  match l with
  | nf :: r =>
      let '(fm, r1) := get_nums (Z.to_nat nf) r in
      match r1 with
      | ns :: r2 =>
          let '(sm, r3) := get_strs (Z.to_nat ns) r2 in
          match r3 with
          | nq :: r4 =>
              let '(qm, r5) := get_nums (Z.to_nat nq) r4 in
              match r5 with
              | ck :: r6 => (mkEnv (look (-7) fm) (look EmptyString sm) (look (-7) qm) ck, r6)
              | [] => (mkEnv (look (-7) fm) (look EmptyString sm) (look (-7) qm) 0, [])
              end
          | [] => (mkEnv (fun _ => -7) (fun _ => EmptyString) (fun _ => -7) 0, [])
          end
      | [] => (mkEnv (fun _ => -7) (fun _ => EmptyString) (fun _ => -7) 0, [])
      end
  | [] => (mkEnv (fun _ => -7) (fun _ => EmptyString) (fun _ => -7) 0, [])
  end.

Definition put_str (s : string) : list Z := Z.of_nat (String.length s) :: codes s.

Definition put_attr (a : string * aval) : list Z :=
  put_str (fst a) ++
  match snd a with
  | VI TInt z => [0; z]
  | VI TULLong z => [1; z]
  | VI TStr z => [2; z]
  | VS s => 3 :: put_str s
  end.

Definition put_attrs (l : attrs) : list Z := flat_map put_attr l.

Definition run (f : Z) (args : list Z) : list Z :=
  match f with
  | 1 => let '(e, _) := get_env args in put_attrs (write_table e file_table)
  | 2 => let '(e, _) := get_env args in put_attrs (write_table e prop_table)
  | 3 => let '(e, r) := get_env args in let '(e', _) := get_env r in
         [check_existing compare_table compare_final e' (write_table e prop_table)]
  | 4 => let '(e, _) := get_env args in
         match regenerate regen_table (write_table e file_table) with
         | Some r => 0 :: put_attrs r
         | None => [-1]
         end
  | _ => [-999]
  end.

Extraction "Extract/attrs_model.ml" run.
