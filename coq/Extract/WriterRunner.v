(* Extraction of the writer models (C01, C05, C06, C07, C11, C19).  ExtrOcamlBasic only.
   fid 1: run a history.  args = start n d sc fc cont chunk gaprule  op*   with
            op = 1 has_ns ns len tag0                (rf_write; vec = tag0 .. tag0+len-1)
               | 2 len tag0 nG G.. nD D..            (rf_write_blocks)
               | 3                                   (close)
               | 4 len tag0 nb (G D)*                (C API digital_rf_write_blocks_hdf5 on the raw state)
               | 5 newstart                          (new session on the same directory: keep files, fresh writer)
          result = per op  [cls; ret; p_next; p_written; p_gap; w_gi; failed]  then  -7 nfiles
                   then per file  ms tmp seq cap nrows (g o)* ndata data*
   fid 2: create_rf_data_index.  args = start gi chunk cont sw left cap vlen next file_exists nb (G D)*
          result = [-1] | [stw; nrows; (g o)*]
   fid 3: get_global_sample.  args = sw nb (G D)*  *)
From Coq Require Import ZArith List Bool.
From DRF Require Import Model.LayoutSpec Model.IndexCalc Model.WriterCore Model.PyWriter.
Require Extraction.
Require Import ExtrOcamlBasic.
Import ListNotations.
Local Open Scope Z_scope.

Fixpoint seqZ (a : Z) (n : nat) : list Z := match n with O => [] | S n' => a :: seqZ (a + 1) n' end.
Definition take (n : Z) (l : list Z) : list Z * list Z := (firstn (Z.to_nat n) l, skipn (Z.to_nat n) l).
Fixpoint pairs (l : list Z) : list (Z * Z) :=
  match l with a :: b :: tl => (a, b) :: pairs tl | _ => [] end.
Definition zb (x : Z) : bool := negb (x =? 0).
Definition bz (b : bool) : Z := if b then 1 else 0.

Definition dump_file (a : afile) : list Z :=
  [f_ms a; bz (f_tmp a); f_seq a; f_cap a; Z.of_nat (length (f_index a))]
  ++ flat_map (fun r => [fst r; snd r]) (f_index a)
  ++ [Z.of_nat (length (f_data a))] ++ f_data a.

Definition report (cls ret : Z) (ps : pystate) : list Z :=
  [cls; ret; p_next ps; p_written ps; p_gap ps; w_gi (p_w ps); bz (w_failed (p_w ps))].

Fixpoint run_ops (fuel : nat) (gr : gap_rule) (c : cfg) (ps : pystate) (ops : list Z) : list Z :=
  match fuel with
  | O => [-98]
  | S fuel' =>
    match ops with
    | [] => [-7; Z.of_nat (length (all_files (p_w ps)))] ++ flat_map dump_file (all_files (p_w ps))
    | 1 :: has_ns :: ns :: len :: tag0 :: rest =>
      let '((cls, ret), ps') := py_rf_write gr c ps (if zb has_ns then Some ns else None) (seqZ tag0 (Z.to_nat len)) in
      report cls ret ps' ++ run_ops fuel' gr c ps' rest
    | 2 :: len :: tag0 :: nG :: rest =>
      let '(G, rest1) := take nG rest in
      match rest1 with
      | nD :: rest2 =>
        let '(D, rest3) := take nD rest2 in
        let '((cls, ret), ps') := py_rf_write_blocks c ps G D (seqZ tag0 (Z.to_nat len)) in
        report cls ret ps' ++ run_ops fuel' gr c ps' rest3
      | [] => [-97]
      end
    | 3 :: rest => let ps' := py_close ps in report 0 0 ps' ++ run_ops fuel' gr c ps' rest
    | 4 :: len :: tag0 :: nb :: rest =>
      let '(gd, rest1) := take (2 * nb) rest in
      let '(rc, w') := write_blocks c (p_w ps) (pairs gd) (seqZ tag0 (Z.to_nat len)) in
      let ps' := mkPy (p_next ps) (p_written ps) (p_gap ps) (p_closed ps) w' in
      report rc 0 ps' ++ run_ops fuel' gr c ps' rest1
    | 5 :: newstart :: rest =>
      let w := p_w (py_close ps) in
      let ps' := mkPy 0 0 0 false (mkW 0 None None 0 0 (-1) false (w_files w)) in
      let c' := mkCfg newstart (c_n c) (c_d c) (c_sc c) (c_fc c) (c_cont c) (c_chunk c) in
      report 0 0 ps' ++ run_ops fuel' gr c' ps' rest
    | _ => [-96]
    end
  end.

Definition run (f : Z) (args : list Z) : list Z :=
  match f, args with
  | 1, start :: n :: d :: sc :: fc :: cont :: chunk :: gr :: ops =>
      run_ops (S (length ops)) (if zb gr then FromCursor else FromRequest)
              (mkCfg start n d sc fc (zb cont) (zb chunk)) py_init ops
  | 2, start :: gi :: chunk :: cont :: sw :: nleft :: cap :: vlen :: next :: fe :: nb :: gd =>
      match create_rf_data_index start gi (zb chunk) (zb cont) sw nleft cap (pairs (firstn (Z.to_nat (2 * nb)) gd)) vlen next (zb fe) with
      | None => [-1]
      | Some (rows, stw) => [stw; Z.of_nat (length rows)] ++ flat_map (fun r => [fst r; snd r]) rows
      end
  | 3, sw :: nb :: gd => [get_global_sample sw (pairs (firstn (Z.to_nat (2 * nb)) gd))]
  | _, _ => [-999]
  end.

Extraction "Extract/writer_model.ml" run.
