#!/bin/bash
# MANIFEST.setup_cmd: build the whole Coq development (full .vo) and the extracted runners, offline.
set -e
cd "$(dirname "$0")"
export PYTHONHASHSEED=0
/venv/bin/python -u harness/setup_all.py
