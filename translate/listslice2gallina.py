"""T14: list_drf._decorated_list_slice -> Gallina (coq/Gen/ListSliceGen.v).

The function computes the slice (ks, ke) of a list of tuples sorted by their first component.  It is
translated statement by statement (Python's `ast`) into a Gallina function over the list `t` of those
first components (times, Z) and natural-number indices:

  ks = 0 / ke = len(dec_list) / ke = ke + 1 / ks = max(ks - 1, 0)   ->  let-bindings on nat
  bisect.bisect_left(dec_list, (x,)[, lo=e])                        ->  bisect_left t x e   (its SPECIFICATION on
                                                                        a list sorted by time, defined in
                                                                        Proofs/ListSliceGenProofs.v; the tuple
                                                                        (time, ..) < (x,) iff time < x)
  dec_list[e][0]                                                    ->  nth_time t e
  if c: <assignments>                                               ->  let v := if c then .. else v
  if x is not None: ..                                              ->  match x with Some x => .. | None => v end
  while c: v = e                                                    ->  while_nat (fun v => c) (fun v => e) fuel v
                                                                        (fuel = S (length t); the proofs show it
                                                                        is never exhausted)
  return slice(ks, ke)                                              ->  (ks, ke)

`and` / `or` become && / || (total functions: no exception is hidden by dropping the short circuit as long
as the index is in range whenever the right operand is evaluated, which the proofs file shows).
Any other statement or expression makes the translator fail (fail-closed).
"""
import ast
import os
import sys

sys.path.insert(0, os.path.dirname(os.path.abspath(__file__)))
from c2gallina import Unsupported  # noqa: E402

LIST = "dec_list"
OPT = ("starttime", "endtime")          # Optional[time]
NATS = ("ks", "ke")


class Tr:
    def __init__(self):
        self.some = set()                # optional names known to be `Some x` here

    # ---- expressions
    def kind(self, n):
        """'nat' | 'time' | 'bool'"""
        if isinstance(n, ast.Constant) and isinstance(n.value, int) and not isinstance(n.value, bool):
            return "nat"
        if isinstance(n, ast.Name):
            if n.id in NATS:
                return "nat"
            if n.id in OPT:
                return "time"
            if n.id == "ffill":
                return "bool"
        if isinstance(n, ast.Call):
            f = n.func
            if isinstance(f, ast.Name) and f.id in ("len", "max", "min"):
                return "nat"
            if isinstance(f, ast.Attribute) and f.attr == "bisect_left":
                return "nat"
        if isinstance(n, ast.BinOp):
            return "nat"
        if isinstance(n, ast.Subscript):
            return "time"
        if isinstance(n, (ast.Compare, ast.BoolOp)) or (isinstance(n, ast.UnaryOp) and isinstance(n.op, ast.Not)):
            return "bool"
        raise Unsupported("expression " + ast.dump(n)[:120])

    def nat(self, n):
        if isinstance(n, ast.Constant) and isinstance(n.value, int) and not isinstance(n.value, bool) and n.value >= 0:
            return "%d" % n.value
        if isinstance(n, ast.Name) and n.id in NATS:
            return n.id
        if isinstance(n, ast.Call) and isinstance(n.func, ast.Name) and not n.keywords:
            if n.func.id == "len" and len(n.args) == 1 and isinstance(n.args[0], ast.Name) and n.args[0].id == LIST:
                return "(length t)"
            if n.func.id in ("max", "min") and len(n.args) == 2:
                return "(Nat.%s %s %s)" % (n.func.id, self.nat(n.args[0]), self.nat(n.args[1]))
        if isinstance(n, ast.Call) and isinstance(n.func, ast.Attribute) and n.func.attr == "bisect_left" and \
                isinstance(n.func.value, ast.Name) and n.func.value.id == "bisect":
            if not (len(n.args) == 2 and isinstance(n.args[0], ast.Name) and n.args[0].id == LIST and
                    isinstance(n.args[1], ast.Tuple) and len(n.args[1].elts) == 1):
                raise Unsupported("bisect_left arguments")
            lo = "0"
            for k in n.keywords:
                if k.arg != "lo":
                    raise Unsupported("bisect_left keyword " + str(k.arg))
                lo = self.nat(k.value)
            return "(bisect_left t %s %s)" % (self.time(n.args[1].elts[0]), lo)
        if isinstance(n, ast.BinOp) and isinstance(n.op, (ast.Add, ast.Sub)):
            # Python ints do not truncate: a - b is translated only in the form max(a - b, 0), where the
            # truncated subtraction of nat gives the same value
            return "(%s %s %s)" % (self.nat(n.left), "+" if isinstance(n.op, ast.Add) else "-", self.nat(n.right))
        raise Unsupported("index expression " + ast.dump(n)[:120])

    def check_sub(self, n, inside_max0=False):
        """every subtraction must be the first argument of max(.., 0)"""
        if isinstance(n, ast.BinOp) and isinstance(n.op, ast.Sub) and not inside_max0:
            raise Unsupported("subtraction outside max(.., 0)")
        if isinstance(n, ast.Call) and isinstance(n.func, ast.Name) and n.func.id == "max" and len(n.args) == 2:
            a, b = n.args
            z = lambda x: isinstance(x, ast.Constant) and x.value == 0  # noqa
            self.check_sub(a, inside_max0=z(b))
            self.check_sub(b, inside_max0=z(a))
            return
        for c in ast.iter_child_nodes(n):
            self.check_sub(c)

    def time(self, n):
        if isinstance(n, ast.Name) and n.id in OPT:
            if n.id not in self.some:
                raise Unsupported("%s used where it may be None" % n.id)
            return n.id
        if isinstance(n, ast.Subscript) and isinstance(n.slice, ast.Constant) and n.slice.value == 0 and \
                isinstance(n.value, ast.Subscript) and isinstance(n.value.value, ast.Name) and n.value.value.id == LIST:
            return "(nth_time t %s)" % self.nat(n.value.slice)
        raise Unsupported("time expression " + ast.dump(n)[:120])

    def boolean(self, n):
        if isinstance(n, ast.Name) and n.id == "ffill":
            return "ffill"
        if isinstance(n, ast.BoolOp):
            op = " && " if isinstance(n.op, ast.And) else " || "
            return "(" + op.join(self.boolean(v) for v in n.values) + ")"
        if isinstance(n, ast.UnaryOp) and isinstance(n.op, ast.Not):
            return "(negb %s)" % self.boolean(n.operand)
        if isinstance(n, ast.Compare) and len(n.ops) == 1:
            a, b = n.left, n.comparators[0]
            ka, kb = self.kind(a), self.kind(b)
            if ka != kb or ka == "bool":
                raise Unsupported("comparison of different kinds")
            ops = {ast.Lt: "<?", ast.LtE: "<=?", ast.Gt: ">?", ast.GtE: ">=?", ast.Eq: "=?"}
            op = ops.get(type(n.ops[0]))
            if op is None:
                raise Unsupported("comparison operator")
            if ka == "nat":
                sa, sb = self.nat(a), self.nat(b)
                if op in (">?", ">=?"):
                    sa, sb, op = sb, sa, {">?": "<?", ">=?": "<=?"}[op]
                return "(%s %s %s)%%nat" % (sa, op, sb)
            return "(%s %s %s)%%Z" % (self.time(a), op, self.time(b))
        raise Unsupported("condition " + ast.dump(n)[:120])

    # ---- statements: returns a function wrapping the continuation text
    def assigned(self, stmts):
        out = []
        for s in stmts:
            if isinstance(s, ast.Assign) and len(s.targets) == 1 and isinstance(s.targets[0], ast.Name) and s.targets[0].id in NATS:
                if s.targets[0].id not in out:
                    out.append(s.targets[0].id)
            elif isinstance(s, (ast.If, ast.While)):
                for v in self.assigned(s.body):
                    if v not in out:
                        out.append(v)
                if getattr(s, "orelse", None):
                    raise Unsupported("else branch")
            elif isinstance(s, ast.Expr) and isinstance(s.value, ast.Constant):
                pass
            else:
                raise Unsupported("statement " + ast.dump(s)[:120])
        return out

    def tup(self, vs):
        return vs[0] if len(vs) == 1 else "(" + ", ".join(vs) + ")"

    def pat(self, vs):
        return vs[0] if len(vs) == 1 else "'(" + ", ".join(vs) + ")"

    def block(self, stmts, ind):
        """lines of `let .. in` for a statement list"""
        out = []
        for s in stmts:
            if isinstance(s, ast.Expr) and isinstance(s.value, ast.Constant):
                continue
            if isinstance(s, ast.Assign):
                self.check_sub(s.value)
                out.append("%slet %s := %s in" % (ind, s.targets[0].id, self.nat(s.value)))
            elif isinstance(s, ast.If):
                vs = self.assigned(s.body)
                if not vs:
                    raise Unsupported("if without assignments")
                t = s.test
                if isinstance(t, ast.Compare) and len(t.ops) == 1 and isinstance(t.ops[0], ast.IsNot) and \
                        isinstance(t.left, ast.Name) and t.left.id in OPT and \
                        isinstance(t.comparators[0], ast.Constant) and t.comparators[0].value is None:
                    nm = t.left.id
                    if nm in self.some:
                        raise Unsupported("nested None test")
                    self.some.add(nm)
                    inner = self.block(s.body, ind + "    ")
                    self.some.discard(nm)
                    out.append("%slet %s := match %s with" % (ind, self.pat(vs), nm))
                    out.append("%s  | Some %s =>" % (ind, nm))
                    out += inner
                    out.append("%s    %s" % (ind, self.tup(vs)))
                    out.append("%s  | None => %s end in" % (ind, self.tup(vs)))
                else:
                    c = self.boolean(t)
                    inner = self.block(s.body, ind + "    ")
                    out.append("%slet %s := if %s then" % (ind, self.pat(vs), c))
                    out += inner
                    out.append("%s    %s" % (ind, self.tup(vs)))
                    out.append("%s  else %s in" % (ind, self.tup(vs)))
            elif isinstance(s, ast.While):
                if not (len(s.body) == 1 and isinstance(s.body[0], ast.Assign)):
                    raise Unsupported("while body must be one assignment")
                v = s.body[0].targets[0].id
                self.check_sub(s.body[0].value)
                out.append("%slet %s := while_nat (fun %s => %s) (fun %s => %s) (S (length t)) %s in" %
                           (ind, v, v, self.boolean(s.test), v, self.nat(s.body[0].value), v))
            else:
                raise Unsupported("statement " + ast.dump(s)[:120])
        return out


def translate(repo="/repo"):
    src = open(os.path.join(repo, "python/digital_rf/list_drf.py")).read()
    tree = ast.parse(src)
    fn = [f for f in tree.body if isinstance(f, ast.FunctionDef) and f.name == "_decorated_list_slice"]
    if len(fn) != 1:
        raise Unsupported("_decorated_list_slice not found")
    fn = fn[0]
    args = [a.arg for a in fn.args.args]
    defaults = [ast.dump(d) for d in fn.args.defaults]
    if args != [LIST, "starttime", "endtime", "ffill"] or len(defaults) != 3:
        raise Unsupported("signature %r" % args)
    body = list(fn.body)
    ret = body.pop()
    if not (isinstance(ret, ast.Return) and isinstance(ret.value, ast.Call) and isinstance(ret.value.func, ast.Name) and
            ret.value.func.id == "slice" and len(ret.value.args) == 2 and
            all(isinstance(a, ast.Name) and a.id in NATS for a in ret.value.args)):
        raise Unsupported("return slice(ks, ke)")
    tr = Tr()
    tr.assigned(body)
    lines = tr.block(body, "  ")
    head = ["(* GENERATED by translate/listslice2gallina.py from python/digital_rf/list_drf.py -- do not edit. *)",
            "From Coq Require Import ZArith List Bool Arith.",
            "From DRF Require Import Model.ListSliceBase.", "",
            "Definition gen_decorated_list_slice (t : list Z) (starttime endtime : option Z) (ffill : bool) : nat * nat :="]
    tail = ["  (%s, %s)." % (ret.value.args[0].id, ret.value.args[1].id), ""]
    return "\n".join(head + lines + tail)


if __name__ == "__main__":
    sys.stdout.write(translate(sys.argv[1] if len(sys.argv) > 1 else "/repo"))
