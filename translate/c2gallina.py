#!/usr/bin/env python3
"""T1: translate the integer-arithmetic C functions of c/lib/rf_write_hdf5.c to Gallina.

Input : clang's typed JSON AST (every implicit conversion is an explicit node).
Output: Gallina definitions in which every arithmetic node goes through the
        wrap-around operation of its C type (Base/U64.v), so that the theorems
        are about 64-bit C arithmetic and not about unbounded Z.

The translator is fail-closed: any node kind, operator, type or statement shape
outside the supported subset raises Unsupported, which the check treats as a
broken tie (VIOLATION ... no-failing-input-found unless a failing input is found).

Supported subset
  * integer scalar locals and parameters (uint64_t, int, long/time_t)
  * out-parameters `T *p` used only as `*p = e`, `*p += e`, `*p` (become components
    of the returned tuple; reading one before it was assigned is rejected)
  * `hdf5_data_object->field` reads (become extra parameters, in order of first use)
  * = += -= *= /= %=, + - * / %, == != < <= > >=, && || !, integer literals, casts
  * `if (cond) return(c);` / `if (cond) { fprintf(...); return(c); }` (early return)
  * `if (f(args, &o1, &o2)) return(c);` where f is itself translated
  * `snprintf(buf, N, "literal", args...)` -> `let buf := snprintf "literal" [args]`
  * `return(c);`
"""
import json
import subprocess
import sys

CLANG_ARGS = ["-I/repo/c/include", "-I/usr/include/hdf5/serial"]


class Unsupported(Exception):
    pass


def clang_ast(src, func, repo="/repo"):
    args = ["clang", "-Xclang", "-ast-dump=json", "-Xclang", "-ast-dump-filter=" + func,
            "-fsyntax-only", "-I%s/c/include" % repo, "-I/usr/include/hdf5/serial", src]
    p = subprocess.run(args, capture_output=True, text=True)
    if p.returncode != 0:
        raise Unsupported("clang failed: " + p.stderr[:2000])
    s = p.stdout
    dec = json.JSONDecoder()
    i = 0
    objs = []
    while i < len(s):
        while i < len(s) and s[i].isspace():
            i += 1
        if i >= len(s):
            break
        o, i = dec.raw_decode(s, i)
        objs.append(o)
    defs = [o for o in objs if o.get("kind") == "FunctionDecl" and o.get("name") == func
            and any(c.get("kind") == "CompoundStmt" for c in o.get("inner", []))]
    if len(defs) != 1:
        raise Unsupported("expected exactly one definition of %s, found %d" % (func, len(defs)))
    return defs[0]


U64 = {"uint64_t", "unsigned long", "unsigned long long", "size_t", "hsize_t"}
I64 = {"long", "long long", "time_t", "int64_t", "__time_t"}
I32 = {"int"}


def tyclass(q):
    q = q.replace("const ", "").strip()
    if q in U64:
        return "u64"
    if q in I64:
        return "i64"
    if q in I32:
        return "i32"
    raise Unsupported("type " + q)


def qt(n):
    return n.get("type", {}).get("qualType", "")


BINOPS = {"+": "add", "-": "sub", "*": "mul", "/": "div", "%": "rem"}
CMPOPS = {"==": "Z.eqb", "!=": "neqb", "<": "Z.ltb", "<=": "Z.leb", ">": "Z.gtb", ">=": "Z.geb"}


class Fn:
    def __init__(self, ast, known):
        self.ast = ast
        self.name = ast["name"]
        self.known = known          # name -> Fn already translated
        self.params = []            # value parameters
        self.outs = []              # out-pointer parameters
        self.struct = None          # name of struct-pointer parameter
        self.fields = []            # struct fields read (order of first use)
        self.bufs = []              # char* out buffers
        self.assigned = set()
        self.locals = set()
        body = None
        for c in ast.get("inner", []):
            if c["kind"] == "ParmVarDecl":
                t = qt(c)
                if t.endswith("*"):
                    base = t[:-1].strip()
                    if base == "char":
                        self.bufs.append(c["name"])
                    elif base in U64 | I64 | I32:
                        self.outs.append(c["name"])
                    elif base == "Digital_rf_write_object":
                        self.struct = c["name"]
                    else:
                        raise Unsupported("pointer parameter type " + t)
                else:
                    tyclass(t)
                    self.params.append(c["name"])
            elif c["kind"] == "CompoundStmt":
                body = c
            else:
                raise Unsupported("function child " + c["kind"])
        self.body = body
        self.nret = None

    # ---------- expressions
    def var(self, name):
        if name in self.outs or name in self.bufs:
            if name not in self.assigned:
                raise Unsupported("read of out-parameter %s before assignment" % name)
            return name + "_out"
        if name in self.params or name in self.locals:
            if name in self.locals and name not in self.assigned:
                raise Unsupported("read of local %s before assignment" % name)
            return name
        raise Unsupported("unknown variable " + name)

    def expr(self, n):
        k = n["kind"]
        if k == "ParenExpr":
            return self.expr(n["inner"][0])
        if k == "ImplicitCastExpr" or k == "CStyleCastExpr":
            ck = n.get("castKind")
            inner = n["inner"][0]
            if ck in ("LValueToRValue", "NoOp"):
                return self.expr(inner)
            if ck == "IntegralCast":
                return "(cast_%s %s)" % (tyclass(qt(n)), self.expr(inner))
            raise Unsupported("cast kind %s" % ck)
        if k == "IntegerLiteral":
            tyclass(qt(n))
            return "(%s)" % n["value"]
        if k == "DeclRefExpr":
            return self.var(n["referencedDecl"]["name"])
        if k == "UnaryOperator":
            op = n["opcode"]
            if op == "*":
                inner = n["inner"][0]
                while inner["kind"] in ("ImplicitCastExpr", "ParenExpr"):
                    inner = inner["inner"][0]
                if inner["kind"] != "DeclRefExpr" or inner["referencedDecl"]["name"] not in self.outs:
                    raise Unsupported("deref of non out-parameter")
                return self.var(inner["referencedDecl"]["name"])
            if op == "!":
                return "(b2z (Z.eqb %s 0))" % self.expr(n["inner"][0])
            if op == "-":
                return "(%s_neg %s)" % (tyclass(qt(n)), self.expr(n["inner"][0]))
            raise Unsupported("unary " + op)
        if k == "MemberExpr":
            base = n["inner"][0]
            while base["kind"] in ("ImplicitCastExpr", "ParenExpr"):
                base = base["inner"][0]
            if base["kind"] != "DeclRefExpr" or base["referencedDecl"]["name"] != self.struct or not n.get("isArrow"):
                raise Unsupported("member access")
            tyclass(qt(n))
            f = n["name"]
            if f not in self.fields:
                self.fields.append(f)
            return "o_" + f
        if k == "BinaryOperator":
            op = n["opcode"]
            a, b = n["inner"]
            if op in BINOPS:
                return "(%s_%s %s %s)" % (tyclass(qt(n)), BINOPS[op], self.expr(a), self.expr(b))
            if op in CMPOPS:
                if tyclass(qt(a)) != tyclass(qt(b)):
                    raise Unsupported("comparison of mixed types")
                return "(b2z (%s %s %s))" % (CMPOPS[op], self.expr(a), self.expr(b))
            if op == "||":
                return "(b2z (orb (negb (Z.eqb %s 0)) (negb (Z.eqb %s 0))))" % (self.expr(a), self.expr(b))
            if op == "&&":
                return "(b2z (andb (negb (Z.eqb %s 0)) (negb (Z.eqb %s 0))))" % (self.expr(a), self.expr(b))
            raise Unsupported("binary operator " + op)
        raise Unsupported("expression kind " + k)

    # ---------- statements
    def lhs(self, n):
        """returns (coq name to bind, c name)"""
        while n["kind"] == "ParenExpr":
            n = n["inner"][0]
        if n["kind"] == "DeclRefExpr":
            nm = n["referencedDecl"]["name"]
            if nm in self.outs or nm in self.bufs or nm == self.struct:
                raise Unsupported("assignment to pointer parameter itself")
            if nm not in self.params and nm not in self.locals:
                raise Unsupported("assignment to unknown " + nm)
            return nm, nm
        if n["kind"] == "UnaryOperator" and n["opcode"] == "*":
            inner = n["inner"][0]
            while inner["kind"] in ("ImplicitCastExpr", "ParenExpr"):
                inner = inner["inner"][0]
            if inner["kind"] == "DeclRefExpr" and inner["referencedDecl"]["name"] in self.outs:
                nm = inner["referencedDecl"]["name"]
                return nm + "_out", nm
        raise Unsupported("assignment target")

    def ret_tuple(self, code):
        parts = [code]
        for o in self.outs + self.bufs:
            if o in self.bufs:
                parts.append((o + "_out") if o in self.assigned else 'EmptyString')
            else:
                parts.append((o + "_out") if o in self.assigned else "0")
        return "(" + ", ".join(parts) + ")"

    def is_return_block(self, n):
        """`return(c);` or `{ fprintf(...); return(c); }` -> the return node, else None"""
        if n["kind"] == "ReturnStmt":
            return n
        if n["kind"] == "CompoundStmt":
            inner = n.get("inner", [])
            if not inner or inner[-1]["kind"] != "ReturnStmt":
                return None
            for s in inner[:-1]:
                if not (s["kind"] == "CallExpr" and self.callee(s) == "fprintf"):
                    return None
            return inner[-1]
        return None

    def callee(self, n):
        f = n["inner"][0]
        while f["kind"] in ("ImplicitCastExpr", "ParenExpr"):
            f = f["inner"][0]
        if f["kind"] != "DeclRefExpr":
            raise Unsupported("indirect call")
        return f["referencedDecl"]["name"]

    def call_parts(self, n):
        """a call to a translated function: returns (coq application, [out names bound])"""
        name = self.callee(n)
        if name not in self.known:
            raise Unsupported("call to untranslated function " + name)
        g = self.known[name]
        args = n["inner"][1:]
        nparams = ([g.struct] if g.struct else []) + g.params_order
        if len(args) != len(g.sig):
            raise Unsupported("arity of call to " + name)
        vals = []
        outs = []
        for a, (kind, pname) in zip(args, g.sig):
            if kind == "val":
                vals.append(self.expr(a))
            elif kind == "struct":
                raise Unsupported("struct passed on")
            else:
                x = a
                while x["kind"] in ("ImplicitCastExpr", "ParenExpr"):
                    x = x["inner"][0]
                if x["kind"] == "UnaryOperator" and x["opcode"] == "&":
                    t = x["inner"][0]
                    if t["kind"] != "DeclRefExpr":
                        raise Unsupported("address of non-variable")
                    nm = t["referencedDecl"]["name"]
                    if nm not in self.locals:
                        raise Unsupported("address of non-local " + nm)
                    outs.append((nm, nm))
                elif x["kind"] == "DeclRefExpr" and x["referencedDecl"]["name"] in self.outs:
                    nm = x["referencedDecl"]["name"]
                    outs.append((nm + "_out", nm))
                else:
                    raise Unsupported("out argument shape")
        return "%s %s" % (name, " ".join(vals)), outs

    def stmts(self, ss):
        if not ss:
            raise Unsupported("control reaches end of function without return")
        s, rest = ss[0], ss[1:]
        k = s["kind"]
        if k == "DeclStmt":
            for v in s["inner"]:
                if v["kind"] != "VarDecl":
                    raise Unsupported("declaration " + v["kind"])
                tyclass(qt(v))
                self.locals.add(v["name"])
                if "inner" in v:
                    e = self.expr(v["inner"][0])
                    self.assigned.add(v["name"])
                    return "let %s := %s in\n  %s" % (v["name"], e, self.stmts(rest))
            return self.stmts(rest)
        if k == "BinaryOperator" and s["opcode"] == "=":
            coq, c = self.lhs(s["inner"][0])
            e = self.expr(s["inner"][1])
            self.assigned.add(c)
            return "let %s := %s in\n  %s" % (coq, e, self.stmts(rest))
        if k == "CompoundAssignOperator":
            op = s["opcode"][:-1]
            if op not in BINOPS:
                raise Unsupported("compound op " + s["opcode"])
            coq, c = self.lhs(s["inner"][0])
            cur = self.var(c)
            cty = tyclass(s.get("computeResultType", {}).get("qualType", qt(s)))
            if cty != tyclass(qt(s)):
                raise Unsupported("compound assignment with conversion")
            e = "(%s_%s %s %s)" % (cty, BINOPS[op], cur, self.expr(s["inner"][1]))
            return "let %s := %s in\n  %s" % (coq, e, self.stmts(rest))
        if k == "ReturnStmt":
            if rest:
                raise Unsupported("code after return")
            return self.ret_tuple(self.expr(s["inner"][0]))
        if k == "CallExpr" and self.callee(s) == "snprintf":
            args = s["inner"][1:]
            buf = args[0]
            while buf["kind"] in ("ImplicitCastExpr", "ParenExpr"):
                buf = buf["inner"][0]
            if buf["kind"] != "DeclRefExpr" or buf["referencedDecl"]["name"] not in self.bufs:
                raise Unsupported("snprintf target")
            fmt = args[2]
            while fmt["kind"] in ("ImplicitCastExpr", "ParenExpr"):
                fmt = fmt["inner"][0]
            if fmt["kind"] != "StringLiteral":
                raise Unsupported("snprintf format not a literal")
            lit = json.loads(fmt["value"])
            if '"' in lit or any(ord(ch) > 126 or ord(ch) < 32 for ch in lit):
                raise Unsupported("format literal characters")
            vals = [self.expr(a) for a in args[3:]]
            nm = buf["referencedDecl"]["name"]
            self.assigned.add(nm)
            return 'let %s_out := snprintf "%s" [%s] in\n  %s' % (nm, lit, "; ".join(vals), self.stmts(rest))
        if k == "IfStmt":
            inner = s["inner"]
            if len(inner) != 2:
                raise Unsupported("if with else")
            cond, then = inner
            r = self.is_return_block(then)
            if r is None:
                raise Unsupported("if body is not an early return")
            code = self.expr(r["inner"][0])
            c = cond
            while c["kind"] in ("ParenExpr",):
                c = c["inner"][0]
            if c["kind"] == "ImplicitCastExpr" and c.get("castKind") == "IntegralToBoolean":
                c = c["inner"][0]
            if c["kind"] == "CallExpr":
                app, outs = self.call_parts(c)
                err = self.ret_tuple(code)
                for coq, cn in outs:
                    self.assigned.add(cn)
                pat = ", ".join(["rc_"] + [coq for coq, _ in outs])
                return "let '(%s) := %s in\n  if negb (Z.eqb rc_ 0) then %s else\n  %s" % (
                    pat, app, err, self.stmts(rest))
            ce = self.expr(c)
            err = self.ret_tuple(code)
            return "if negb (Z.eqb %s 0) then %s else\n  %s" % (ce, err, self.stmts(rest))
        raise Unsupported("statement kind " + k)

    def translate(self):
        # parameter order as in C
        self.sig = []
        for c in self.ast["inner"]:
            if c["kind"] != "ParmVarDecl":
                continue
            nm = c["name"]
            if nm in self.params:
                self.sig.append(("val", nm))
            elif nm == self.struct:
                self.sig.append(("struct", nm))
            else:
                self.sig.append(("out", nm))
        self.params_order = [n for k, n in self.sig if k == "val"]
        body = self.stmts(self.body.get("inner", []))
        fields = " ".join("o_" + f for f in self.fields)
        params = " ".join(self.params_order)
        allp = (fields + " " + params).strip()
        out = "(* from %s; returns (status%s) *)\n" % (
            self.name, "".join(", *" + o for o in self.outs + self.bufs))
        if self.fields:
            out += "(* struct fields read, in order of first use: %s *)\n" % ", ".join(self.fields)
        out += "Definition %s (%s : Z) :=\n  %s.\n" % (self.name, allp, body)
        return out


HEADER = """(* GENERATED by translate/c2gallina.py from %s -- do not edit.
   Regenerated on every run of ./check; the theorems in Proofs/ are re-checked against it. *)
From Coq Require Import ZArith String List Bool.
From DRF Require Import Base.U64 Base.Dec.
Import ListNotations.
Local Open Scope Z_scope.
Local Open Scope string_scope.

"""


class Extern:
    """a callee that is modelled by hand on the Coq side (e.g. gmtime wrapper)"""

    def __init__(self, name, nvals, nouts):
        self.name = name
        self.sig = [("val", "a%d" % i) for i in range(nvals)] + [("out", "o%d" % i) for i in range(nouts)]
        self.struct = None
        self.params_order = [n for k, n in self.sig if k == "val"]


EXTERNS = {"digital_rf_get_time_parts": Extern("digital_rf_get_time_parts", 1, 6)}


def translate_functions(src, names, repo="/repo", extra_imports="", emit=None):
    """translate `names` in order (callees first); only those in `emit` (default all) are printed"""
    known = dict(EXTERNS)
    text = HEADER % src.replace(repo + "/", "") + extra_imports
    for nm in names:
        f = Fn(clang_ast(src, nm, repo), known)
        t = f.translate()
        if emit is None or nm in emit:
            text += t + "\n"
        known[nm] = f
    return text


if __name__ == "__main__":
    src = sys.argv[1]
    print(translate_functions(src, sys.argv[2:]))
