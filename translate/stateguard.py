"""T17: where can the library keep state?  -> coq/Gen/StateSites.v

The hand models keep the state of a writer in its Digital_rf_write_object / DigitalRFWriter, of a reader in its
reader object, and treat every conversion and listing function as a function of its arguments.  This translator
lists every place in the sources where state could live OUTSIDE those objects:

  C (clang JSON AST of c/lib/rf_write_hdf5.c and python/lib/py_rf_write_hdf5.c)
    * a local variable with static storage duration,
    * a file-scope variable that is not const-qualified (the extension's PyMethodDef / PyModuleDef tables,
      which CPython requires to be static and never writes after initialisation, are exempt by type),
    * a release of the GIL (Py_BEGIN_ALLOW_THREADS = PyEval_SaveThread ...): the library's calls of gmtime() and of
      HDF5 share per-process state, which only the GIL keeps out of two threads' hands at once;
  Python (ast of the package modules)
    * a class attribute bound to a mutable container (list / dict / set display or comprehension, or a call of
      list, dict, set, defaultdict, OrderedDict, deque, Counter),
    * a module-level name bound to such a container, or rebound by a `global` statement in a function,
    * a function decorated with functools cache decorators (lru_cache, cache, cached_property is per object: allowed).
    * object state outside the models (see OBJECT_STATE below): an attribute assigned, or a container attribute changed,
      in a method other than __init__ that is not on the list of what the hand models carry.
    Module-level names written in UPPER_CASE (optionally with a leading underscore) that no function of the
    module assigns to, mutates through a subscript / attribute store, or calls a mutating method on, are constants.

The output is the list of such sites as Coq strings.  Proofs/StateSitesProofs.v proves the list empty; a new site
breaks that proof (the check then reports what no longer checks and searches for a failing input as usual).
"""
import ast
import os
import sys

sys.path.insert(0, os.path.dirname(os.path.abspath(__file__)))
from c2gallina import Unsupported  # noqa: E402

C_FILES = ["c/lib/rf_write_hdf5.c", "python/lib/py_rf_write_hdf5.c"]
PY_FILES = ["python/digital_rf/digital_rf_hdf5.py", "python/digital_rf/digital_metadata.py", "python/digital_rf/list_drf.py",
            "python/digital_rf/watchdog_drf.py", "python/digital_rf/ringbuffer.py", "python/digital_rf/mirror.py",
            "python/digital_rf/util.py", "python/digital_rf/drf_command.py"]
MUT_CALLS = {"list", "dict", "set", "defaultdict", "OrderedDict", "deque", "Counter"}
MUT_METHODS = {"append", "extend", "insert", "pop", "remove", "clear", "update", "setdefault", "add", "discard", "sort", "reverse",
               "popitem", "appendleft", "popleft"}
EXEMPT_C_TYPES = ("PyMethodDef", "PyModuleDef", "PyTypeObject")
GIL_RELEASE = ("PyEval_SaveThread", "PyEval_ReleaseThread", "PyEval_ReleaseLock", "PyGILState_Release")


def c_sites(repo, rel):
    import json
    import subprocess
    src = os.path.join(repo, rel)
    inc = ["-I" + os.path.join(repo, "c/include"), "-I/usr/include/hdf5/serial",
           "-I/root/.pyenv/versions/3.12.1/include/python3.12", "-I/venv/lib/python3.12/site-packages/numpy/_core/include"]
    p = subprocess.run(["clang", "-w", "-Xclang", "-ast-dump=json", "-fsyntax-only"] + inc + [src], capture_output=True, text=True)
    if p.returncode != 0 or not p.stdout:
        raise Unsupported("clang cannot parse %s: %s" % (rel, p.stderr[-300:]))
    tu = json.loads(p.stdout)
    out = []
    base = os.path.basename(src)

    def in_main_file(n, cur):
        loc = n.get("loc", {})
        f = loc.get("file") or (loc.get("expansionLoc") or {}).get("file") or (loc.get("spellingLoc") or {}).get("file")
        return f or cur

    cur = None
    for d in tu.get("inner", []):
        cur = in_main_file(d, cur)
        if cur is None or os.path.basename(cur) != base:
            continue
        if d.get("kind") == "VarDecl":
            ty = (d.get("type") or {}).get("qualType", "")
            if d.get("storageClass") == "extern":
                continue
            if "const" in ty.split("*")[-1].split() or ty.startswith("const ") and "*" not in ty:
                continue
            if any(t in ty for t in EXEMPT_C_TYPES):
                continue
            out.append("%s: file-scope variable `%s` of type `%s`" % (rel, d.get("name"), ty))
        if d.get("kind") == "FunctionDecl":
            fname = d.get("name")

            def walk(n):
                # the sequential models assume that calls into the library are serialised: the library calls gmtime()
                # (one static struct tm per process) and HDF5 (process-wide state).  A release of the GIL in the
                # extension lets two Python threads run library code at once.
                if n.get("kind") == "DeclRefExpr" and (n.get("referencedDecl") or {}).get("name") in GIL_RELEASE:
                    out.append("%s: %s() releases the GIL (%s)" % (rel, fname, n["referencedDecl"]["name"]))
                if n.get("kind") == "VarDecl" and n.get("storageClass") == "static":
                    ty = (n.get("type") or {}).get("qualType", "")
                    if not (ty.startswith("const ") or " const" in ty or any(t in ty for t in EXEMPT_C_TYPES)):
                        out.append("%s: static local `%s` in %s()" % (rel, n.get("name"), fname))
                for c in n.get("inner", []) or []:
                    walk(c)
            walk(d)
    return out


def is_mutable_value(v):
    if isinstance(v, (ast.List, ast.Dict, ast.Set, ast.ListComp, ast.DictComp, ast.SetComp)):
        return True
    if isinstance(v, ast.Call):
        f = v.func
        nm = f.id if isinstance(f, ast.Name) else f.attr if isinstance(f, ast.Attribute) else None
        return nm in MUT_CALLS
    return False


def py_sites(repo, rel):
    tree = ast.parse(open(os.path.join(repo, rel)).read())
    out = []
    # names mutated anywhere inside functions of the module
    mutated = set()
    for fn in ast.walk(tree):
        if isinstance(fn, (ast.FunctionDef, ast.AsyncFunctionDef, ast.Lambda)):
            for n in ast.walk(fn):
                if isinstance(n, ast.Global):
                    for g in n.names:
                        out.append("%s: `global %s` in %s()" % (rel, g, getattr(fn, "name", "<lambda>")))
                if isinstance(n, (ast.Subscript, ast.Attribute)) and isinstance(n.ctx, (ast.Store, ast.Del)) and \
                        isinstance(n.value, ast.Name):
                    mutated.add(n.value.id)
                if isinstance(n, ast.Call) and isinstance(n.func, ast.Attribute) and n.func.attr in MUT_METHODS and \
                        isinstance(n.func.value, ast.Name):
                    mutated.add(n.func.value.id)
            for d in getattr(fn, "decorator_list", []):
                nm = d.func if isinstance(d, ast.Call) else d
                nm = nm.id if isinstance(nm, ast.Name) else nm.attr if isinstance(nm, ast.Attribute) else ""
                if nm in ("lru_cache", "cache"):
                    out.append("%s: %s() is decorated with %s" % (rel, fn.name, nm))
    # local names of functions shadow module names: only module-level containers matter
    local_names = {}
    for s in tree.body:
        if isinstance(s, (ast.Assign, ast.AnnAssign)):
            targets = s.targets if isinstance(s, ast.Assign) else [s.target]
            val = s.value
            for t in targets:
                if isinstance(t, ast.Name) and val is not None and is_mutable_value(val):
                    const_like = t.id.lstrip("_").isupper() and t.id not in mutated
                    if not const_like:
                        out.append("%s: module-level container `%s`" % (rel, t.id))
        if isinstance(s, ast.ClassDef):
            for c in s.body:
                if isinstance(c, (ast.Assign, ast.AnnAssign)):
                    targets = c.targets if isinstance(c, ast.Assign) else [c.target]
                    val = c.value
                    for t in targets:
                        if isinstance(t, ast.Name) and val is not None and is_mutable_value(val):
                            out.append("%s: class attribute `%s.%s` is a mutable container shared by all instances" % (rel, s.name, t.id))
    del local_names
    return out + object_state_sites(tree, rel)


# state an OBJECT of the library carries from one call to the next, outside what its constructor sets up: attributes
# assigned, containers changed (method call / subscript store / del) in methods other than __init__.  The list below is
# what the hand models have (writer counters and the values remembered by close; the reader's one cached file; the
# metadata writer's field list; the ring buffer's records and size; observers and threads of the long-running tools).
# Anything else -- a new memo, a "seen" set, a remembered first file -- is a place where a result can come to depend on
# the calls made before, which no model has.
OBJECT_STATE = {
    "DigitalRFWriter": {"_total_samples_written", "_total_gap_samples", "_next_avail_sample", "_last_file_written",
                        "_last_dir_written", "_last_utc_timestamp", "del _channelObj"},
    "_top_level_dir_properties": {"_cachedFile", "_cachedFilename", "rf_data", "rf_data_len", "rf_index", "rf_index_len"},
    "DigitalRFReader": {"_channel_dict.clear", "_channel_metadata_reader[]"},
    "DigitalMetadataWriter": {"_fields", "_digital_metadata_version", "_fields.sort"},
    "DigitalRFRingbufferHandlerBase": {"records.pop", "records[]"},
    "SizeExpirer": {"active_size", "records[]"},
    "DigitalRFRingbuffer": {"observer", "_start_time", "_task_threads.append", "_task_threads[]"},
    "DigitalRFMirror": {"observer"},
    "DirWatcher": {"root_watch", "_watches.clear", "_stopped_handlers.update"},
}


def object_state_sites(tree, rel):
    out = []
    for c in tree.body:
        if not isinstance(c, ast.ClassDef):
            continue
        allowed = OBJECT_STATE.get(c.name, set())
        found = {}
        for m in c.body:
            if not isinstance(m, ast.FunctionDef) or m.name == "__init__":
                continue
            for n in ast.walk(m):
                tg = []
                if isinstance(n, ast.Assign):
                    tg = n.targets
                elif isinstance(n, (ast.AugAssign, ast.AnnAssign)):
                    tg = [n.target]
                for t in tg:
                    for x in ast.walk(t):
                        if isinstance(x, ast.Attribute) and isinstance(x.value, ast.Name) and x.value.id == "self" and isinstance(x.ctx, ast.Store):
                            found.setdefault(x.attr, m.name)
                if isinstance(n, ast.Call) and isinstance(n.func, ast.Attribute) and n.func.attr in MUT_METHODS and \
                        isinstance(n.func.value, ast.Attribute) and isinstance(n.func.value.value, ast.Name) and n.func.value.value.id == "self":
                    found.setdefault(n.func.value.attr + "." + n.func.attr, m.name)
                if isinstance(n, ast.Subscript) and isinstance(n.ctx, (ast.Store, ast.Del)) and isinstance(n.value, ast.Attribute) and \
                        isinstance(n.value.value, ast.Name) and n.value.value.id == "self":
                    found.setdefault(n.value.attr + "[]", m.name)
                if isinstance(n, ast.Delete):
                    for t in n.targets:
                        if isinstance(t, ast.Attribute) and isinstance(t.value, ast.Name) and t.value.id == "self":
                            found.setdefault("del " + t.attr, m.name)
        for k in sorted(found):
            if k not in allowed:
                out.append("%s: object state `%s.%s` changed in %s() is not part of any model" % (rel, c.name, k, found[k]))
    return out


AREAS = [("c_library", ["c/lib/rf_write_hdf5.c"]),
         ("extension", ["python/lib/py_rf_write_hdf5.c"]),
         ("rf_python", ["python/digital_rf/digital_rf_hdf5.py"]),
         ("metadata", ["python/digital_rf/digital_metadata.py"]),
         ("listing", ["python/digital_rf/list_drf.py", "python/digital_rf/drf_command.py", "python/digital_rf/util.py"]),
         ("events", ["python/digital_rf/watchdog_drf.py", "python/digital_rf/ringbuffer.py", "python/digital_rf/mirror.py"])]


def sites(repo="/repo"):
    out = {}
    for area, files in AREAS:
        out[area] = []
        for f in files:
            out[area] += c_sites(repo, f) if f.endswith(".c") else py_sites(repo, f)
    return out


def translate(repo="/repo"):
    ss = sites(repo)
    lines = ["(* GENERATED by translate/stateguard.py -- do not edit.  Places where the library could keep state outside",
             "   the writer / reader / handler objects the models know about, per source area. *)",
             "From Coq Require Import String List.", "Import ListNotations.", "Local Open Scope string_scope.", ""]
    for area, _files in AREAS:
        lines.append("Definition state_sites_%s : list string := [" % area)
        lines.append(";\n".join('  "%s"' % x.replace('"', "'") for x in ss[area]))
        lines.append("].")
        lines.append("")
    return "\n".join(lines)


if __name__ == "__main__":
    sys.stdout.write(translate(sys.argv[1] if len(sys.argv) > 1 else "/repo"))
