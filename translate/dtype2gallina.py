"""T4: the element-type decision table of the Python extension -> Gallina (coq/Gen/DtypeTable.v).

python/lib/py_rf_write_hdf5.c, get_hdf5_data_type(byteorder, dtype_char, bytecount) is a pure
if/else-if chain over its three scalar parameters that returns a predefined HDF5 type (or -1).  It is
read from clang's JSON AST and emitted as a Gallina function over Z returning `option string` (the
name of the predefined type without the H5T_ prefix and _g suffix).  Fail-closed: any statement or
expression outside  if / else / return / == != && || ! / parameter / character or integer literal /
predefined type / -1  raises Unsupported.
"""
import json
import os
import subprocess
import sys

sys.path.insert(0, os.path.dirname(os.path.abspath(__file__)))
from c2gallina import Unsupported  # noqa: E402

PARAMS = ("byteorder", "dtype_char", "bytecount")
PYINC = ["-I/root/.pyenv/versions/3.12.1/include/python3.12", "-I/venv/lib/python3.12/site-packages/numpy/_core/include"]


def ast_of(repo, func):
    src = os.path.join(repo, "python/lib/py_rf_write_hdf5.c")
    args = ["clang", "-Xclang", "-ast-dump=json", "-Xclang", "-ast-dump-filter=" + func, "-fsyntax-only",
            "-I%s/c/include" % repo, "-I/usr/include/hdf5/serial"] + PYINC + [src]
    p = subprocess.run(args, capture_output=True, text=True)
    if p.returncode != 0:
        raise Unsupported("clang failed: " + p.stderr[:1500])
    s, dec, i, objs = p.stdout, json.JSONDecoder(), 0, []
    while i < len(s):
        while i < len(s) and s[i].isspace():
            i += 1
        if i >= len(s):
            break
        o, i = dec.raw_decode(s, i)
        objs.append(o)
    defs = [o for o in objs if o.get("kind") == "FunctionDecl" and o.get("name") == func
            and any(c.get("kind") == "CompoundStmt" for c in o.get("inner", []))]
    if len(defs) != 1:
        raise Unsupported("expected one definition of " + func)
    ps = [c["name"] for c in defs[0]["inner"] if c.get("kind") == "ParmVarDecl"]
    if tuple(ps) != PARAMS:
        raise Unsupported("parameters of %s are %r" % (func, ps))
    return [c for c in defs[0]["inner"] if c.get("kind") == "CompoundStmt"][0]


def strip(n):
    while n.get("kind") in ("ImplicitCastExpr", "ParenExpr", "CStyleCastExpr"):
        n = n["inner"][0]
    return n


def expr(n):
    n = strip(n)
    k = n.get("kind")
    if k == "DeclRefExpr":
        nm = n["referencedDecl"]["name"]
        if nm in PARAMS:
            return nm
        raise Unsupported("reference to " + nm)
    if k in ("CharacterLiteral", "IntegerLiteral"):
        return "(%d)" % int(n["value"])
    if k == "UnaryOperator" and n.get("opcode") == "!":
        return "(negb %s)" % cond(n["inner"][0])
    raise Unsupported("expression " + k)


def cond(n):
    n = strip(n)
    if n.get("kind") == "BinaryOperator":
        op = n["opcode"]
        a, b = n["inner"]
        if op == "&&":
            return "(%s && %s)" % (cond(a), cond(b))
        if op == "||":
            return "(%s || %s)" % (cond(a), cond(b))
        if op == "==":
            return "(%s =? %s)" % (expr(a), expr(b))
        if op == "!=":
            return "(negb (%s =? %s))" % (expr(a), expr(b))
        if op in ("<", "<=", ">", ">="):
            return "(%s %s? %s)" % (expr(a), op, expr(b))
    if n.get("kind") == "UnaryOperator" and n.get("opcode") == "!":
        return "(negb %s)" % cond(n["inner"][0])
    raise Unsupported("condition " + str(n.get("kind")))


def retval(n):
    n = strip(n)
    if n.get("kind") == "BinaryOperator" and n.get("opcode") == ",":       # (H5open(), H5T_X_g)
        r = strip(n["inner"][1])
        if r.get("kind") == "DeclRefExpr":
            nm = r["referencedDecl"]["name"]
            if nm.startswith("H5T_") and nm.endswith("_g"):
                return 'Some "%s"%%string' % nm[4:-2]
    if n.get("kind") == "UnaryOperator" and n.get("opcode") == "-" and strip(n["inner"][0]).get("value") == "1":
        return "None"
    raise Unsupported("return value")


def stmts(lst, depth=1):
    """a statement list with fall-through semantics -> Gallina term"""
    if not lst:
        raise Unsupported("control reaches the end of the function without a return")
    s, rest = lst[0], lst[1:]
    k = s.get("kind")
    ind = "  " * depth
    if k == "ReturnStmt":
        return retval(s["inner"][0])
    if k == "CompoundStmt":
        return stmts(s.get("inner", []) + rest, depth)
    if k == "IfStmt":
        c = cond(s["inner"][0])
        then = s["inner"][1]
        els = s["inner"][2] if len(s["inner"]) > 2 else None
        t = stmts([then] + rest, depth + 1)
        e = stmts(([els] if els is not None else []) + rest, depth + 1)
        return "if %s\n%sthen %s\n%selse %s" % (c, ind, t, ind, e)
    if k == "NullStmt":
        return stmts(rest, depth)
    raise Unsupported("statement " + str(k))


def translate(repo="/repo"):
    body = ast_of(repo, "get_hdf5_data_type")
    term = stmts(body.get("inner", []))
    return "\n".join([
        "(* GENERATED by translate/dtype2gallina.py from python/lib/py_rf_write_hdf5.c -- do not edit. *)",
        "From Coq Require Import ZArith Bool String.",
        "Local Open Scope Z_scope.",
        "",
        "(* hid_t get_hdf5_data_type(char byteorder, char dtype_char, int bytecount); None = -1 *)",
        "Definition get_hdf5_data_type (byteorder dtype_char bytecount : Z) : option string :=",
        "  " + term + ".",
        ""])


if __name__ == "__main__":
    sys.stdout.write(translate(sys.argv[1] if len(sys.argv) > 1 else "/repo"))
