"""T20: DigitalRFMirrorHandler.mirror_to_dest (+ _get_dest_path) -> Gallina (coq/Gen/MirrorDestGen.v).

The method is translated statement by statement into a function from the outcomes of the primitives it calls
(record mprims of Model/MirrorDestBase.v: does the destination directory / file exist, does makedirs succeed, what
does filecmp.cmp say or does it raise OSError, do the staging call and the rename succeed, is the source still a
file) to the list of file-system actions it attempts, in order (each with its success flag):

  * the three path definitions must be exactly
        dest_path = self._get_dest_path(src_path)             (_get_dest_path = join(self.dest, relpath(src_path, self.src)))
        dest_dir, dest_name = os.path.split(dest_path)
        tmp_dest_path = os.path.join(dest_dir, "<prefix>" + dest_name)     -> gen_tmp_prefix
  * inside the try: `if <cond>:` with conditions built from os.path.exists(dest_dir | dest_path) (never raises),
    filecmp.cmp(src_path, dest_path) (may raise OSError), not / or / and with Python's short circuit;
    os.makedirs(dest_dir[, exist_ok=...]) -> AMakedirs; self.mirror_fun(src_path, tmp_dest_path) -> AStage;
    os.rename(tmp_dest_path, dest_path) -> APublish; progress output (`if self.verbose:` with print / sys.stdout
    calls and a `now = ...` assignment only) is skipped.  A failing primitive ends the try body.
  * `except OSError:` a test on os.path.isfile(src_path) with `pass` / traceback.print_exc() -> AReport
  * afterwards: src_dir, src_name = os.path.split(src_path); try: os.rmdir(src_dir) except OSError: pass -> ARmdirSrc
Any other statement, any other argument of the three file operations, makes the translator fail.
"""
import ast
import os
import sys

sys.path.insert(0, os.path.dirname(os.path.abspath(__file__)))
from c2gallina import Unsupported  # noqa: E402
from mdplace2gallina import find_fn  # noqa: E402

T_DEST = ("Assign(targets=[Name(id='dest_path', ctx=Store())], value=Call(func=Attribute(value=Name(id='self', ctx=Load()), "
          "attr='_get_dest_path', ctx=Load()), args=[Name(id='src_path', ctx=Load())], keywords=[]))")
T_SPLIT = ("Assign(targets=[Tuple(elts=[Name(id='%s_dir', ctx=Store()), Name(id='%s_name', ctx=Store())], ctx=Store())], "
           "value=Call(func=Attribute(value=Attribute(value=Name(id='os', ctx=Load()), attr='path', ctx=Load()), attr='split', "
           "ctx=Load()), args=[Name(id='%s_path', ctx=Load())], keywords=[]))")
T_GET = ["Assign(targets=[Name(id='rel_path', ctx=Store())], value=Call(func=Attribute(value=Attribute(value=Name(id='os', ctx=Load()), "
         "attr='path', ctx=Load()), attr='relpath', ctx=Load()), args=[Name(id='src_path', ctx=Load()), Attribute(value=Name(id='self', "
         "ctx=Load()), attr='src', ctx=Load())], keywords=[]))",
         "Assign(targets=[Name(id='dest_path', ctx=Store())], value=Call(func=Attribute(value=Attribute(value=Name(id='os', ctx=Load()), "
         "attr='path', ctx=Load()), attr='join', ctx=Load()), args=[Attribute(value=Name(id='self', ctx=Load()), attr='dest', ctx=Load()), "
         "Name(id='rel_path', ctx=Load())], keywords=[]))",
         "Return(value=Name(id='dest_path', ctx=Load()))"]


def name(n, s):
    return isinstance(n, ast.Name) and n.id == s


def dotted(n):
    if isinstance(n, ast.Name):
        return n.id
    if isinstance(n, ast.Attribute):
        return dotted(n.value) + "." + n.attr
    return "?"


def call_of(n):
    """(dotted function name, [argument names], {keyword: constant}) of a call whose arguments are plain names"""
    if not isinstance(n, ast.Call):
        return None
    args = []
    for a in n.args:
        if not isinstance(a, ast.Name):
            return None
        args.append(a.id)
    kw = {}
    for k in n.keywords:
        if not isinstance(k.value, ast.Constant):
            return None
        kw[k.arg] = k.value.value
    return dotted(n.func), args, kw


def cond(n):
    """condition -> Gallina term of type option bool (None = OSError raised while evaluating it)"""
    c = call_of(n)
    if c:
        f, args, kw = c
        if f == "os.path.exists" and not kw and args == ["dest_dir"]:
            return "(Some (p_dest_dir_exists pr))"
        if f == "os.path.exists" and not kw and args == ["dest_path"]:
            return "(Some (p_dest_exists pr))"
        if f == "filecmp.cmp" and args == ["src_path", "dest_path"] and kw in ({}, {"shallow": True}):
            return "(p_cmp pr)"
        if f == "os.path.isfile" and not kw and args == ["src_path"]:
            return "(Some (p_src_isfile pr))"
        raise Unsupported("call in a condition: %s%r" % (f, args))
    if isinstance(n, ast.UnaryOp) and isinstance(n.op, ast.Not):
        return "(c_not %s)" % cond(n.operand)
    if isinstance(n, ast.BoolOp):
        op = "c_or" if isinstance(n.op, ast.Or) else "c_and"
        t = cond(n.values[-1])
        for v in reversed(n.values[:-1]):
            t = "(%s %s %s)" % (op, cond(v), t)
        return t
    raise Unsupported("condition " + ast.dump(n)[:120])


def is_output_only(stmts):
    for s in stmts:
        if isinstance(s, ast.Assign) and len(s.targets) == 1 and name(s.targets[0], "now"):
            continue
        if isinstance(s, ast.Expr) and isinstance(s.value, ast.Call) and dotted(s.value.func) in ("print", "sys.stdout.write", "sys.stdout.flush"):
            continue
        return False
    return True


def tr(stmts):
    """try body in continuation style -> Gallina term of type (list mact * bool); bool = ran to its end"""
    if not stmts:
        return "([], true)"
    s, rest = stmts[0], stmts[1:]
    if isinstance(s, ast.If) and isinstance(s.test, ast.Attribute) and dotted(s.test) == "self.verbose":
        if not (is_output_only(s.body) and is_output_only(s.orelse)):
            raise Unsupported("`if self.verbose:` does more than progress output")
        return tr(rest)
    if isinstance(s, ast.If) and not s.orelse:
        r = tr(rest)
        return ("(let k := %s in\n   match %s with\n   | None => ([], false)\n   | Some true => bind_acts %s k\n   | Some false => k\n   end)"
                % (r, cond(s.test), tr_block(s.body)))
    if isinstance(s, ast.Expr):
        c = call_of(s.value)
        if c:
            f, args, kw = c
            act = None
            if f == "os.makedirs" and args == ["dest_dir"] and set(kw) <= {"exist_ok"}:
                act = ("AMakedirs", "p_makedirs_ok")
            elif f == "self.mirror_fun" and args == ["src_path", "tmp_dest_path"] and not kw:
                act = ("AStage", "p_stage_ok")
            elif f == "os.rename" and args == ["tmp_dest_path", "dest_path"] and not kw:
                act = ("APublish", "p_rename_ok")
            if act:
                return "(if %s pr then pcons (%s true) %s else ([%s false], false))" % (act[1], act[0], tr(rest), act[0])
    raise Unsupported("statement in the try body: " + ast.dump(s)[:160])


def tr_block(stmts):
    return tr(stmts)


def handler_acts(stmts):
    out = []
    for s in stmts:
        if isinstance(s, ast.Pass):
            continue
        if isinstance(s, ast.Expr) and isinstance(s.value, ast.Call) and dotted(s.value.func) == "traceback.print_exc" and not s.value.args:
            out.append("AReport")
            continue
        if isinstance(s, ast.If):
            c = cond(s.test)
            out.append("@(match %s with Some true => %s | _ => %s end)" % (c, handler_list(s.body), handler_list(s.orelse)))
            continue
        raise Unsupported("statement in the OSError handler: " + ast.dump(s)[:140])
    return out


def handler_list(stmts):
    parts = handler_acts(stmts)
    if not parts:
        return "[]"
    terms = []
    for p in parts:
        terms.append(p[1:] if p.startswith("@") else "[%s]" % p)
    return "(" + " ++ ".join(terms) + ")"


def translate(repo="/repo"):
    tree = ast.parse(open(os.path.join(repo, "python/digital_rf/mirror.py")).read())
    g = find_fn(tree, "DigitalRFMirrorHandler", "_get_dest_path")
    gb = [s for s in g.body if not (isinstance(s, ast.Expr) and isinstance(s.value, ast.Constant))]
    if [ast.dump(s) for s in gb] != T_GET or [a.arg for a in g.args.args] != ["self", "src_path"]:
        raise Unsupported("_get_dest_path is not join(self.dest, relpath(src_path, self.src))")
    fn = find_fn(tree, "DigitalRFMirrorHandler", "mirror_to_dest")
    if [a.arg for a in fn.args.args] != ["self", "src_path"]:
        raise Unsupported("signature of mirror_to_dest")
    body = [s for s in fn.body if not (isinstance(s, ast.Expr) and isinstance(s.value, ast.Constant))]
    if len(body) != 6:
        raise Unsupported("mirror_to_dest: six statements expected (three path definitions, try, split, try), got %d" % len(body))
    if ast.dump(body[0]) != T_DEST or ast.dump(body[1]) != T_SPLIT % ("dest", "dest", "dest") or ast.dump(body[4]) != T_SPLIT % ("src", "src", "src"):
        raise Unsupported("path definitions of mirror_to_dest changed")
    t = body[2]
    ok = (isinstance(t, ast.Assign) and name(t.targets[0], "tmp_dest_path") and isinstance(t.value, ast.Call) and dotted(t.value.func) == "os.path.join"
          and len(t.value.args) == 2 and name(t.value.args[0], "dest_dir") and isinstance(t.value.args[1], ast.BinOp) and
          isinstance(t.value.args[1].op, ast.Add) and isinstance(t.value.args[1].left, ast.Constant) and
          isinstance(t.value.args[1].left.value, str) and name(t.value.args[1].right, "dest_name"))
    if not ok:
        raise Unsupported("tmp_dest_path is not os.path.join(dest_dir, '<prefix>' + dest_name)")
    prefix = t.value.args[1].left.value
    if '"' in prefix or "\\" in prefix:
        raise Unsupported("prefix")
    tr_ = body[3]
    if not (isinstance(tr_, ast.Try) and len(tr_.handlers) == 1 and not tr_.orelse and not tr_.finalbody and
            name(tr_.handlers[0].type, "OSError") and tr_.handlers[0].name is None):
        raise Unsupported("the file operations must sit in one try ... except OSError")
    main = tr(tr_.body)
    handler = handler_list(tr_.handlers[0].body)
    c = body[5]
    if not (isinstance(c, ast.Try) and len(c.body) == 1 and len(c.handlers) == 1 and name(c.handlers[0].type, "OSError") and
            len(c.handlers[0].body) == 1 and isinstance(c.handlers[0].body[0], ast.Pass) and not c.orelse and not c.finalbody and
            isinstance(c.body[0], ast.Expr) and call_of(c.body[0].value) == ("os.rmdir", ["src_dir"], {})):
        raise Unsupported("clean-up must be try: os.rmdir(src_dir) except OSError: pass")
    out = ["(* GENERATED by translate/mirrordest2gallina.py from python/digital_rf/mirror.py -- do not edit. *)",
           "From Coq Require Import List Bool String.",
           "From DRF Require Import Model.MirrorDestBase.",
           "Import ListNotations.", "",
           "(* the staging name: os.path.join(dest_dir, prefix + dest_name); dest_path = join(self.dest, relpath(src_path, self.src)) *)",
           'Definition gen_tmp_prefix : string := "%s"%%string.' % prefix, "",
           "Definition gen_try_body (pr : mprims) : list mact * bool :=", "  %s." % main, "",
           "Definition gen_handler (pr : mprims) : list mact :=", "  %s." % handler, "",
           "Definition gen_mirror_to_dest (pr : mprims) : list mact :=",
           "  let r := gen_try_body pr in fst r ++ (if snd r then [] else gen_handler pr) ++ [ARmdirSrc].", ""]
    return "\n".join(out)


if __name__ == "__main__":
    sys.stdout.write(translate(sys.argv[1] if len(sys.argv) > 1 else "/repo"))
