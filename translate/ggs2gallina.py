"""T12: digital_rf_get_global_sample -> Gallina (coq/Gen/GgsGen.v).

The function is a scan over two parallel arrays:
    ret = E0(A[0], D[0], params);
    for (i = 1; i < index_len; i++) { if (B(D[i], A[i], params)) break; ret = E(A[i], D[i], params); }
    return ret;
The translator (clang JSON AST) checks exactly that shape -- the arrays are read only at 0 before the loop
and only at the loop variable inside it, the loop runs from 1 to index_len in steps of one -- and emits the
scan as structural recursion over the zipped arrays, with the unsigned 64-bit arithmetic made explicit
(Base/U64.v).  Fail-closed on any other shape.
"""
import os
import sys

sys.path.insert(0, os.path.dirname(os.path.abspath(__file__)))
from c2gallina import Unsupported, clang_ast  # noqa: E402

ARRS = {"global_index_arr": "g", "data_index_arr": "dx"}
PARAMS = {"samples_written": "sw"}
BIN = {"+": "u64_add", "-": "u64_sub", "*": "u64_mul"}
CMP = {"<": "<?", "<=": "<=?", ">": ">?", ">=": ">=?", "==": "=?"}


def strip(n):
    while n.get("kind") in ("ImplicitCastExpr", "ParenExpr"):
        n = n["inner"][0]
    return n


def name_of(n):
    n = strip(n)
    return n["referencedDecl"]["name"] if n.get("kind") == "DeclRefExpr" else None


class Tr:
    def __init__(self, idx):
        self.idx = idx           # None: subscripts must be the literal 0; else the loop variable

    def z(self, n):
        n = strip(n)
        k = n.get("kind")
        if k == "IntegerLiteral":
            return "(%d)" % int(n["value"])
        if k == "DeclRefExpr":
            nm = n["referencedDecl"]["name"]
            if nm in PARAMS:
                return PARAMS[nm]
            raise Unsupported("variable " + nm)
        if k == "ArraySubscriptExpr":
            a, i = name_of(n["inner"][0]), strip(n["inner"][1])
            if a not in ARRS:
                raise Unsupported("array " + str(a))
            if self.idx is None:
                if not (i.get("kind") == "IntegerLiteral" and int(i["value"]) == 0):
                    raise Unsupported("subscript other than 0 before the loop")
            elif name_of(i) != self.idx:
                raise Unsupported("subscript other than the loop variable inside the loop")
            return ARRS[a]
        if k == "BinaryOperator" and n["opcode"] in BIN:
            if n["type"]["qualType"] not in ("uint64_t", "unsigned long", "unsigned long long"):
                raise Unsupported("arithmetic of type " + n["type"]["qualType"])
            return "(%s %s %s)" % (BIN[n["opcode"]], self.z(n["inner"][0]), self.z(n["inner"][1]))
        raise Unsupported("expression " + str(k))

    def b(self, n):
        n = strip(n)
        if n.get("kind") == "BinaryOperator" and n["opcode"] in CMP:
            return "(%s %s %s)" % (self.z(n["inner"][0]), CMP[n["opcode"]], self.z(n["inner"][1]))
        raise Unsupported("condition")


def translate(repo="/repo"):
    fn = clang_ast(os.path.join(repo, "c/lib/rf_write_hdf5.c"), "digital_rf_get_global_sample", repo)
    params = [c["name"] for c in fn["inner"] if c.get("kind") == "ParmVarDecl"]
    if params != ["samples_written", "global_index_arr", "data_index_arr", "index_len"]:
        raise Unsupported("parameters %r" % params)
    body = [s for s in [c for c in fn["inner"] if c.get("kind") == "CompoundStmt"][0]["inner"] if s.get("kind") != "DeclStmt"]
    if len(body) != 3:
        raise Unsupported("expected: initial assignment, for loop, return")
    a0, loop, ret = body
    if not (a0.get("kind") == "BinaryOperator" and a0.get("opcode") == "=" and name_of(a0["inner"][0]) is not None):
        raise Unsupported("initial assignment")
    acc = name_of(a0["inner"][0])
    e0 = Tr(None).z(a0["inner"][1])
    if loop.get("kind") != "ForStmt":
        raise Unsupported("for loop")
    init, _, cond, inc, lbody = loop["inner"]
    if not (init.get("kind") == "BinaryOperator" and init.get("opcode") == "=" and strip(init["inner"][1]).get("value") == "1"):
        raise Unsupported("loop must start at 1")
    iv = name_of(init["inner"][0])
    c = strip(cond)
    if not (c.get("kind") == "BinaryOperator" and c.get("opcode") == "<" and name_of(c["inner"][0]) == iv and name_of(c["inner"][1]) == "index_len"):
        raise Unsupported("loop condition must be i < index_len")
    if not (inc.get("kind") == "UnaryOperator" and inc.get("opcode") == "++" and name_of(inc["inner"][0]) == iv):
        raise Unsupported("loop increment must be i++")
    lb = lbody["inner"] if lbody.get("kind") == "CompoundStmt" else [lbody]
    if len(lb) != 2 or lb[0].get("kind") != "IfStmt" or len(lb[0]["inner"]) != 2:
        raise Unsupported("loop body: expected `if (...) break;` and one assignment")
    brk = lb[0]["inner"][1]
    brk = brk["inner"][0] if brk.get("kind") == "CompoundStmt" and len(brk.get("inner", [])) == 1 else brk
    if brk.get("kind") != "BreakStmt":
        raise Unsupported("loop body: the conditional must break")
    bcond = Tr(iv).b(lb[0]["inner"][0])
    a1 = lb[1]
    if not (a1.get("kind") == "BinaryOperator" and a1.get("opcode") == "=" and name_of(a1["inner"][0]) == acc):
        raise Unsupported("loop body: assignment to the accumulator")
    e1 = Tr(iv).z(a1["inner"][1])
    if not (ret.get("kind") == "ReturnStmt" and name_of(ret["inner"][0]) == acc):
        raise Unsupported("return of the accumulator")
    return "\n".join([
        "(* GENERATED by translate/ggs2gallina.py from digital_rf_get_global_sample (c/lib/rf_write_hdf5.c) -- do not edit. *)",
        "From Coq Require Import ZArith List Bool.",
        "From DRF Require Import Base.U64.",
        "Import ListNotations.",
        "Local Open Scope Z_scope.", "",
        "(* the scan from index 1 on; (g, dx) = (global_index_arr[i], data_index_arr[i]) *)",
        "Fixpoint gen_ggs_loop (sw : Z) (bl : list (Z * Z)) (ret : Z) : Z :=",
        "  match bl with",
        "  | [] => ret",
        "  | (g, dx) :: tl => if %s then ret else gen_ggs_loop sw tl %s" % (bcond, e1),
        "  end.",
        "Definition gen_get_global_sample (sw : Z) (bl : list (Z * Z)) : Z :=",
        "  match bl with",
        "  | [] => 0",
        "  | (g, dx) :: tl => gen_ggs_loop sw tl %s" % e0,
        "  end.", ""])


if __name__ == "__main__":
    sys.stdout.write(translate(sys.argv[1] if len(sys.argv) > 1 else "/repo"))
