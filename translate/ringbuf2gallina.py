"""T10: the expiry conditions and the mixin order of the ring buffer -> Gallina (coq/Gen/RingbufGen.v).

From python/digital_rf/ringbuffer.py (Python's `ast`):
  CountExpirer._expire / SizeExpirer._expire / TimeExpirer._expire : each must have exactly the shape
      with self._record_lock:  [queue = self.queues[group]]  while <cond>: self._expire_oldest*(group)
      super(<Class>, self)._expire(group)
  (the super call AFTER and OUTSIDE the loop); <cond> is translated;
  TimeExpirer._queue_duration : newkey - oldkey of the first / last queue entry, 0 on an empty queue;
  DigitalRFRingbufferHandler   : the order in which the mixins are prepended to the bases (= the MRO:
      the LAST one prepended runs first).
Fail-closed on any other shape.
"""
import ast
import os
import sys

sys.path.insert(0, os.path.dirname(os.path.abspath(__file__)))
from c2gallina import Unsupported  # noqa: E402

CLASSES = {"CountExpirer": ("count", 1), "TimeExpirer": ("duration", 2), "SizeExpirer": ("size", 3)}


def cond(n):
    """len(queue) > self.count | self.active_size > self.size | self._queue_duration(queue) > self.duration"""
    if not (isinstance(n, ast.Compare) and len(n.ops) == 1):
        raise Unsupported("loop condition is not a single comparison")
    op = {ast.Gt: ">?", ast.GtE: ">=?", ast.Lt: "<?", ast.LtE: "<=?"}.get(type(n.ops[0]))
    if op is None:
        raise Unsupported("loop condition operator")

    def side(x):
        if isinstance(x, ast.Call) and isinstance(x.func, ast.Name) and x.func.id == "len" and isinstance(x.args[0], ast.Name) \
                and x.args[0].id == "queue":
            return "qlen"
        if isinstance(x, ast.Call) and isinstance(x.func, ast.Attribute) and x.func.attr == "_queue_duration":
            return "qdur"
        if isinstance(x, ast.Attribute) and isinstance(x.value, ast.Name) and x.value.id == "self":
            return {"active_size": "act", "count": "limit", "size": "limit", "duration": "limit"}.get(x.attr) or _bad(x.attr)
        raise Unsupported("operand of the loop condition")
    return "(%s %s %s)" % (side(n.left), op, side(n.comparators[0]))


def _bad(a):
    raise Unsupported("attribute self.%s in a loop condition" % a)


def translate(repo="/repo"):
    src = open(os.path.join(repo, "python/digital_rf/ringbuffer.py")).read()
    tree = ast.parse(src)
    classes = {c.name: c for c in tree.body if isinstance(c, ast.ClassDef)}
    conds = {}
    for cname, (attr, code) in CLASSES.items():
        if cname not in classes:
            raise Unsupported("class %s not found" % cname)
        fns = {f.name: f for f in classes[cname].body if isinstance(f, ast.FunctionDef)}
        f = fns.get("_expire")
        if f is None:
            raise Unsupported("%s._expire not found" % cname)
        body = [s for s in f.body if not (isinstance(s, ast.Expr) and isinstance(s.value, ast.Constant))]
        if len(body) != 2 or not isinstance(body[0], ast.With):
            raise Unsupported("%s._expire: expected `with lock: ...` followed by the super call" % cname)
        sup = body[1]
        if not (isinstance(sup, ast.Expr) and isinstance(sup.value, ast.Call) and isinstance(sup.value.func, ast.Attribute)
                and sup.value.func.attr == "_expire" and isinstance(sup.value.func.value, ast.Call)
                and isinstance(sup.value.func.value.func, ast.Name) and sup.value.func.value.func.id == "super"):
            raise Unsupported("%s._expire: the super()._expire(group) call must follow the locked loop" % cname)
        inner = list(body[0].body)
        if inner and isinstance(inner[0], ast.Assign) and isinstance(inner[0].targets[0], ast.Name) and inner[0].targets[0].id == "queue":
            inner = inner[1:]
        if not (len(inner) == 1 and isinstance(inner[0], ast.While) and not inner[0].orelse and len(inner[0].body) == 1
                and isinstance(inner[0].body[0], ast.Expr) and isinstance(inner[0].body[0].value, ast.Call)
                and isinstance(inner[0].body[0].value.func, ast.Attribute)
                and inner[0].body[0].value.func.attr in ("_expire_oldest_from_group", "_expire_oldest")):
            raise Unsupported("%s._expire: expected a single `while <cond>: self._expire_oldest*(group)`" % cname)
        conds[cname] = cond(inner[0].test)
    # _queue_duration
    qd = [f for f in classes["TimeExpirer"].body if isinstance(f, ast.FunctionDef) and f.name == "_queue_duration"]
    if len(qd) != 1:
        raise Unsupported("TimeExpirer._queue_duration not found")
    body = [s for s in qd[0].body if not (isinstance(s, ast.Expr) and isinstance(s.value, ast.Constant))]
    ok = (len(body) == 2 and isinstance(body[0], ast.Try) and isinstance(body[1], ast.Return)
          and isinstance(body[1].value, ast.BinOp) and isinstance(body[1].value.op, ast.Sub)
          and isinstance(body[1].value.left, ast.Name) and isinstance(body[1].value.right, ast.Name))
    if not ok:
        raise Unsupported("_queue_duration: unexpected shape")
    names = {}
    for s in body[0].body:
        if not (isinstance(s, ast.Assign) and isinstance(s.targets[0], ast.Tuple) and isinstance(s.value, ast.Subscript)
                and isinstance(s.value.value, ast.Name) and s.value.value.id == "queue"):
            raise Unsupported("_queue_duration: try body")
        idx = s.value.slice
        pos = 0 if (isinstance(idx, ast.Constant) and idx.value == 0) else -1 if (
            isinstance(idx, ast.UnaryOp) and isinstance(idx.op, ast.USub) and idx.operand.value == 1) else None
        if pos is None:
            raise Unsupported("_queue_duration: queue index")
        names[s.targets[0].elts[0].id] = "first" if pos == 0 else "lastk"
    h = body[0].handlers
    if not (len(h) == 1 and isinstance(h[0].type, ast.Name) and h[0].type.id == "IndexError" and len(h[0].body) == 1
            and isinstance(h[0].body[0], ast.Return) and isinstance(h[0].body[0].value, ast.Constant)):
        raise Unsupported("_queue_duration: except branch")
    empty = int(h[0].body[0].value.value)
    dur = "(%s - %s)" % (names[body[1].value.left.id], names[body[1].value.right.id])
    # mixin order in the factory
    fac = [f for f in tree.body if isinstance(f, ast.FunctionDef) and f.name == "DigitalRFRingbufferHandler"]
    if len(fac) != 1:
        raise Unsupported("factory DigitalRFRingbufferHandler not found")
    order = []
    for s in fac[0].body:
        if isinstance(s, ast.If) and isinstance(s.test, ast.Compare) and isinstance(s.test.ops[0], ast.IsNot) and len(s.test.comparators) == 1:
            for b in s.body:
                if isinstance(b, ast.Assign) and isinstance(b.targets[0], ast.Name) and b.targets[0].id == "bases" \
                        and isinstance(b.value, ast.BinOp) and isinstance(b.value.left, ast.Tuple) and len(b.value.left.elts) == 1 \
                        and isinstance(b.value.left.elts[0], ast.Name) and isinstance(b.value.right, ast.Name) and b.value.right.id == "bases":
                    order.append(b.value.left.elts[0].id)
    if sorted(order) != sorted(CLASSES):
        raise Unsupported("factory: mixins prepended are %r" % order)
    mro = [CLASSES[c][1] for c in reversed(order)]          # last prepended = first in the MRO
    return "\n".join([
        "(* GENERATED by translate/ringbuf2gallina.py from python/digital_rf/ringbuffer.py -- do not edit. *)",
        "From Coq Require Import ZArith List Bool.",
        "Import ListNotations.",
        "Local Open Scope Z_scope.", "",
        "(* `while <cond>:` of the three expirers (the loop is followed by super()._expire(group)) *)",
        "Definition gen_count_cond (qlen limit : Z) : bool := %s." % conds["CountExpirer"],
        "Definition gen_time_cond (qdur limit : Z) : bool := %s." % conds["TimeExpirer"],
        "Definition gen_size_cond (act limit : Z) : bool := %s." % conds["SizeExpirer"],
        "(* TimeExpirer._queue_duration: first / last key of a non-empty queue; empty queue *)",
        "Definition gen_queue_duration (first lastk : Z) : Z := %s." % dur,
        "Definition gen_queue_duration_empty : Z := %d." % empty,
        "(* order in which the expirers run (method resolution order): 1 = count, 2 = duration, 3 = size *)",
        "Definition gen_mro : list Z := [%s]." % "; ".join(map(str, mro)), ""])


if __name__ == "__main__":
    sys.stdout.write(translate(sys.argv[1] if len(sys.argv) > 1 else "/repo"))
