"""T3: attribute tables of the writer -> Gallina  (coq/Gen/AttrTables.v).

Sources translated (all from the *current* tree):
  c/lib/rf_write_hdf5.c    digital_rf_write_metadata          -> file_table    (attributes of rf_data)
                           digital_rf_handle_metadata    -> prop_table    (create branch)
                                                                 compare_table (restart branch), compare_final
  python/digital_rf/digital_rf_hdf5.py  recreate_properties_file -> regen_table, regen_source_dataset

The C functions are read from clang's JSON AST (macros expanded, implicit conversions explicit) by a
small symbolic interpreter of straight-line HDF5 attribute code.  It is fail-closed: a statement it
does not recognise raises Unsupported, which the checks report as a broken translation.  What it
recognises is deliberately loose about *content* (any attribute name, any source field, any
comparison operator, any return value), so that a changed table is translated and then judged by the
theorems of Proofs/AttrsProofs.v rather than rejected here.
"""
import ast
import os
import sys

sys.path.insert(0, os.path.dirname(os.path.abspath(__file__)))
from c2gallina import Unsupported, clang_ast  # noqa: E402

OBJ = "hdf5_data_object"
TYPES = {"H5T_NATIVE_INT_g": "TInt", "H5T_NATIVE_ULLONG_g": "TULLong"}
IGNORED_CALLS = {"H5Tset_size", "H5Tclose", "H5Sclose", "strcpy", "strcat", "snprintf", "fprintf", "remove", "H5Fclose"}
OPAQUE_RHS = {"H5Screate", "H5Tcopy", "H5Fcreate", "H5Fopen"}
OPS = {"!=": "ONe", "==": "OEq", "<": "OLt", "<=": "OLe", ">": "OGt", ">=": "OGe"}


def strip(n):
    while n.get("kind") in ("ImplicitCastExpr", "ParenExpr", "CStyleCastExpr"):
        n = n["inner"][0]
    return n


def callee(n):
    n = strip(n)
    if n.get("kind") != "CallExpr":
        return None
    f = strip(n["inner"][0])
    if f.get("kind") == "DeclRefExpr":
        return f["referencedDecl"]["name"]
    return None


def args(n):
    return strip(n)["inner"][1:]


def declref(n):
    n = strip(n)
    if n.get("kind") == "DeclRefExpr":
        return n["referencedDecl"]["name"]
    return None


def member_of_obj(n):
    n = strip(n)
    if n.get("kind") == "MemberExpr" and declref(n["inner"][0]) == OBJ:
        return n["name"]
    return None


def ctype_of(n):
    """the HDF5 memory type argument: H5T_NATIVE_X (macro: (H5open(), H5T_NATIVE_X_g)) or a copied string type"""
    m = strip(n)
    if m.get("kind") == "BinaryOperator" and m.get("opcode") == ",":
        r = declref(m["inner"][1])
        if r in TYPES:
            return TYPES[r]
        raise Unsupported("unknown HDF5 type " + str(r))
    r = declref(m)
    if r == "str_type":
        return "TStr"
    raise Unsupported("unrecognised type argument")


def qs(s):
    return '"' + s.replace('"', '""') + '"'


class Interp:
    def __init__(self):
        self.locals = {}      # local variable -> source term
        self.handles = {}     # handle variable -> dict(name, ty, target, written)
        self.writes = []      # (target, name, ty, src)
        self.compares = []    # dict(name, ty, src, op, miss, rej)
        self.cur = None       # compare branch: the attribute being processed
        self.reads = {}       # local variable -> (name, ty) it was H5Aread into

    # ---- expressions
    def source(self, n):
        m = strip(n)
        k = m.get("kind")
        if k == "UnaryOperator" and m.get("opcode") == "&":
            return self.source(m["inner"][0])
        f = member_of_obj(m)
        if f is not None:
            q = m["type"]["qualType"]
            return ("SSField " if "char" in q else "SField ") + qs(f)
        if k == "StringLiteral":
            v = m["value"]
            return "SLit " + qs(ast.literal_eval(v) if v.startswith('"') else v)
        c = callee(m)
        if c is not None and c.startswith("H5Tget_"):
            a = args(m)
            if len(a) == 1 and member_of_obj(a[0]) == "dtype_id":
                return "SDtype " + qs(c)
            raise Unsupported(c + " of something other than the writer's dtype_id")
        if c == "time":
            return "SClock"
        v = declref(m)
        if v is not None and v in self.locals:
            return self.locals[v]
        raise Unsupported("unrecognised attribute source expression (%s)" % k)

    def returns(self, n):
        """the integer a block returns with (its last statement), or None"""
        body = n["inner"] if n.get("kind") == "CompoundStmt" else [n]
        if not body or body[-1].get("kind") != "ReturnStmt":
            return None
        for st in body[:-1]:
            if callee(st) not in IGNORED_CALLS:
                raise Unsupported("unexpected statement in an error branch")
        r = strip(body[-1]["inner"][0])
        if r.get("kind") == "IntegerLiteral":
            return int(r["value"])
        if r.get("kind") == "UnaryOperator" and r.get("opcode") == "-":
            return -int(strip(r["inner"][0])["value"])
        raise Unsupported("non-literal return value")

    def mentions(self, n, out=None):
        out = set() if out is None else out
        if n.get("kind") == "DeclRefExpr":
            out.add(n["referencedDecl"]["name"])
        for c in n.get("inner", []):
            self.mentions(c, out)
        return out

    # ---- statements of attribute-writing code
    def stmt(self, s, mode):
        k = s.get("kind")
        if k in ("DeclStmt", "NullStmt"):
            return
        if k == "BinaryOperator" and s.get("opcode") == "=":
            lhs = declref(s["inner"][0])
            if lhs is None:
                raise Unsupported("assignment to a non-variable")
            c = callee(s["inner"][1])
            if c == "H5Acreate2" and mode == "write":
                a = args(s["inner"][1])
                tgt = member_of_obj(a[0]) or declref(a[0])
                nm = strip(a[1])
                if nm.get("kind") != "StringLiteral":
                    raise Unsupported("attribute name is not a literal")
                if lhs in self.handles:
                    raise Unsupported("attribute handle reused before H5Aclose")
                self.handles[lhs] = dict(name=ast.literal_eval(nm["value"]), ty=ctype_of(a[2]), target=tgt, written=False)
                return
            if c == "H5Aopen" and mode == "compare":
                a = args(s["inner"][1])
                nm = strip(a[1])
                if nm.get("kind") != "StringLiteral":
                    raise Unsupported("attribute name is not a literal")
                self.cur = dict(name=ast.literal_eval(nm["value"]), handle=lhs, miss=None, ty=None, var=None, done=False)
                return
            if c in OPAQUE_RHS:
                return
            self.locals[lhs] = self.source(s["inner"][1])
            return
        c = callee(s)
        if c == "H5Awrite" and mode == "write":
            a = args(s)
            h = declref(a[0])
            if h not in self.handles or self.handles[h]["written"]:
                raise Unsupported("H5Awrite on an unknown or already written handle")
            ent = self.handles[h]
            ty = ctype_of(a[1])
            if ty != ent["ty"]:
                raise Unsupported("attribute %s created and written with different types" % ent["name"])
            self.writes.append((ent["target"], ent["name"], ty, self.source(a[2])))
            ent["written"] = True
            return
        if c == "H5Aclose":
            h = declref(args(s)[0])
            if mode == "write":
                if h not in self.handles or not self.handles[h]["written"]:
                    raise Unsupported("H5Aclose of an attribute never written")
                del self.handles[h]
            else:
                self.cur = None
            return
        if c == "H5Aread" and mode == "compare":
            a = args(s)
            if self.cur is None or declref(a[0]) != self.cur["handle"]:
                raise Unsupported("H5Aread without H5Aopen")
            inner = strip(a[2])
            if not (inner.get("kind") == "UnaryOperator" and inner.get("opcode") == "&"):
                raise Unsupported("H5Aread target")
            self.cur["ty"] = ctype_of(a[1])
            self.cur["var"] = declref(inner["inner"][0])
            return
        if c in IGNORED_CALLS:
            return
        if k == "IfStmt":
            cond, then = s["inner"][0], s["inner"][1]
            if len(s["inner"]) > 2:
                raise Unsupported("if/else inside attribute code")
            ret = self.returns(then)
            if ret is None:
                raise Unsupported("conditional attribute code")
            names = self.mentions(cond)
            if mode == "compare" and self.cur is not None:
                cm = strip(cond)
                if cm.get("kind") == "BinaryOperator" and cm.get("opcode") in OPS:
                    l, r = cm["inner"]
                    if declref(l) == self.cur["handle"]:       # if (attribute_id < 0) return miss
                        self.cur["miss"] = ret
                        return
                    if self.cur["var"] is not None and declref(l) == self.cur["var"]:
                        self.compares.append(dict(name=self.cur["name"], ty=self.cur["ty"], src=self.source(r),
                                                  op=OPS[cm["opcode"]], miss=self.cur["miss"] if self.cur["miss"] is not None else 0,
                                                  rej=ret))
                        return
                raise Unsupported("unrecognised test in the comparison of attribute " + self.cur["name"])
            if names <= {"hdf5_file", "H5Fclose", "rename", "metadata_tmp_file", "metadata_file"} and ret != 0:
                return                                              # file could not be created / opened / published
            raise Unsupported("unrecognised conditional")
        raise Unsupported("unrecognised statement kind %s (%s)" % (k, c))

    def block(self, stmts, mode):
        for s in stmts:
            self.stmt(s, mode)
        if self.handles:
            raise Unsupported("attribute handle left open")


def body_of(fn):
    return [c for c in fn["inner"] if c.get("kind") == "CompoundStmt"][0]["inner"]


def c_tables(repo):
    src = os.path.join(repo, "c/lib/rf_write_hdf5.c")
    # ---- per-file attributes
    it = Interp()
    it.block(body_of(clang_ast(src, "digital_rf_write_metadata", repo)), "write")
    if any(t != "dataset" for (t, _, _, _) in it.writes):
        raise Unsupported("digital_rf_write_metadata writes an attribute somewhere other than the rf_data dataset")
    file_table = [(n, ty, s) for (_, n, ty, s) in it.writes]
    # ---- properties file: create and compare branches
    body = body_of(clang_ast(src, "digital_rf_handle_metadata", repo))
    create = compare = None
    final = None
    pre = Interp()
    for s in body:
        k = s.get("kind")
        if k == "IfStmt":
            names = pre.mentions(s["inner"][0])
            if "access" in names:                       # sets metadata_exists
                continue
            cm = strip(s["inner"][0])
            if names == {"metadata_exists"} and cm.get("opcode") == "==" and strip(cm["inner"][1]).get("value") == "0" \
                    and len(s["inner"]) == 3 and create is None:
                create, compare = s["inner"][1]["inner"], s["inner"][2]["inner"]
                continue
            raise Unsupported("unrecognised top-level conditional in digital_rf_handle_metadata")
        if k == "ReturnStmt":
            final = pre.returns(s)
            continue
        pre.stmt(s, "write")
    if create is None or final is None:
        raise Unsupported("create / compare branches of digital_rf_handle_metadata not found")
    ic = Interp()
    ic.block(create, "write")
    if any(t != "hdf5_file" for (t, _, _, _) in ic.writes):
        raise Unsupported("properties attribute written somewhere other than the properties file")
    prop_table = [(n, ty, s) for (_, n, ty, s) in ic.writes]
    im = Interp()
    im.block(compare, "compare")
    return file_table, prop_table, im.compares, final


def py_regen(repo):
    path = os.path.join(repo, "python/digital_rf/digital_rf_hdf5.py")
    tree = ast.parse(open(path).read())
    fn = [n for n in tree.body if isinstance(n, ast.FunctionDef) and n.name == "recreate_properties_file"]
    if len(fn) != 1:
        raise Unsupported("recreate_properties_file not found")
    withs = [n for n in ast.walk(fn[0]) if isinstance(n, ast.With)]
    inner = [w for w in withs if not any(isinstance(x, ast.With) for x in w.body)]
    if len(inner) != 1:
        raise Unsupported("recreate_properties_file: expected one innermost with-block")
    rows, md, dataset = [], None, None
    for st in inner[0].body:
        if not (isinstance(st, ast.Assign) and len(st.targets) == 1):
            raise Unsupported("recreate_properties_file: unrecognised statement")
        t, v = st.targets[0], st.value
        if isinstance(t, ast.Name):                    # md = fi["rf_data"].attrs
            if not (isinstance(v, ast.Attribute) and v.attr == "attrs" and isinstance(v.value, ast.Subscript)
                    and isinstance(v.value.slice, ast.Constant)):
                raise Unsupported("recreate_properties_file: unrecognised source of attributes")
            md, dataset = t.id, v.value.slice.value
            continue
        ok = (isinstance(t, ast.Subscript) and isinstance(t.value, ast.Attribute) and t.value.attr == "attrs"
              and isinstance(t.slice, ast.Constant) and isinstance(v, ast.Subscript) and isinstance(v.value, ast.Name)
              and v.value.id == md and isinstance(v.slice, ast.Constant))
        if not ok:
            raise Unsupported("recreate_properties_file: unrecognised copy statement")
        rows.append((t.slice.value, v.slice.value))
    return rows, dataset


def translate(repo="/repo"):
    file_table, prop_table, compares, final = c_tables(repo)
    regen, dataset = py_regen(repo)

    def wl(tab):
        return "[\n  " + ";\n  ".join("mkW %s %s (%s)" % (qs(n), ty, s) for (n, ty, s) in tab) + "]"
    out = ["(* GENERATED by translate/attrs2gallina.py from c/lib/rf_write_hdf5.c and",
           "   python/digital_rf/digital_rf_hdf5.py -- do not edit. *)",
           "From Coq Require Import ZArith List String.",
           "From DRF Require Import Model.Attrs.",
           "Import ListNotations.",
           "Local Open Scope string_scope.",
           "Local Open Scope Z_scope.",
           "",
           "(* digital_rf_write_metadata: attributes of the rf_data dataset of every data file *)",
           "Definition file_table : list wentry := " + wl(file_table) + ".",
           "",
           "(* digital_rf_handle_metadata, drf_properties.h5 absent: attributes of the new file *)",
           "Definition prop_table : list wentry := " + wl(prop_table) + ".",
           "",
           "(* digital_rf_handle_metadata, drf_properties.h5 present: the comparison *)",
           "Definition compare_table : list centry := [\n  " + ";\n  ".join(
               "mkC %s %s (%s) %s (%d) (%d)" % (qs(c["name"]), c["ty"], c["src"], c["op"], c["miss"], c["rej"]) for c in compares) + "].",
           "Definition compare_final : Z := %d." % final,
           "",
           "(* recreate_properties_file: fo.attrs[dst] = fi[%s].attrs[src] *)" % qs(dataset or ""),
           "Definition regen_dataset : string := %s." % qs(dataset or ""),
           "Definition regen_table : list (string * string) := [\n  " + ";\n  ".join(
               "(%s, %s)" % (qs(d), qs(s)) for (d, s) in regen) + "].",
           ""]
    return "\n".join(out)


if __name__ == "__main__":
    sys.stdout.write(translate(sys.argv[1] if len(sys.argv) > 1 else "/repo"))
