"""T18: DigitalRFReader._combine_blocks -> Gallina (coq/Gen/CombineGen.v).

The method merges the per-file pieces of a read into maximal contiguous blocks.  It is translated statement by
statement into a state machine over (present block, next contiguous sample, finished blocks), generic in the
payload type X with `cat` (np.concatenate of two arrays / + of two lengths) and `size` (len(arr) / arr itself):

    ret_dict = collections.OrderedDict()                 -> finished blocks, in insertion order
    if len(cont_data_dict) == 0: return ret_dict         -> [] for no pieces
    present_arr = None ; next_cont_sample = None         -> initial state
    for key, arr in sorted(cont_data_dict.items()):      -> fold over the pieces SORTED BY KEY (the translator
                                                            requires the call of sorted(); the keys of a dict are
                                                            distinct, so sorting the items is sorting by key)
        if present_arr is None: ...  elif key == next_cont_sample: ...  else: ...
        next_cont_sample = key + len(arr)  (len_only: key + arr)
    ret_dict[present_key] = present_arr ; return ret_dict -> finished ++ [present]

Inside the loop only: assignments to present_key / present_arr / next_cont_sample, ret_dict[present_key] =
present_arr, `if len_only:` pairs whose two branches are the length / array forms of the same update, and the
three-way test above.  Anything else makes the translator fail.
"""
import ast
import os
import sys

sys.path.insert(0, os.path.dirname(os.path.abspath(__file__)))
from c2gallina import Unsupported  # noqa: E402
from mdplace2gallina import find_fn  # noqa: E402


def name(n, s):
    return isinstance(n, ast.Name) and n.id == s


def payload(n):
    """an expression denoting a payload (array / length): arr, present_arr, cat of two"""
    if name(n, "arr"):
        return "arr"
    if name(n, "present_arr"):
        return "pa"
    # np.concatenate((a, b))
    if isinstance(n, ast.Call) and isinstance(n.func, ast.Attribute) and n.func.attr == "concatenate" and len(n.args) == 1 \
            and isinstance(n.args[0], ast.Tuple) and len(n.args[0].elts) == 2:
        return "(cat %s %s)" % (payload(n.args[0].elts[0]), payload(n.args[0].elts[1]))
    if isinstance(n, ast.BinOp) and isinstance(n.op, ast.Add):
        return "(cat %s %s)" % (payload(n.left), payload(n.right))
    raise Unsupported("payload expression " + ast.dump(n)[:100])


def zexpr(n):
    if name(n, "key"):
        return "key"
    if name(n, "present_key"):
        return "pk"
    if name(n, "arr"):                     # len_only: the payload is the length
        return "(size arr)"
    if isinstance(n, ast.Call) and isinstance(n.func, ast.Name) and n.func.id == "len" and len(n.args) == 1 and name(n.args[0], "arr"):
        return "(size arr)"
    if isinstance(n, ast.BinOp) and isinstance(n.op, (ast.Add, ast.Sub)):
        return "(%s %s %s)" % (zexpr(n.left), "+" if isinstance(n.op, ast.Add) else "-", zexpr(n.right))
    if isinstance(n, ast.Constant) and isinstance(n.value, int):
        return "(%d)" % n.value
    raise Unsupported("integer expression " + ast.dump(n)[:100])


class St:
    """symbolic state: pk/pa (present block, or None), nxt, flushed (list of blocks appended to ret_dict)"""

    def __init__(self):
        self.pk, self.pa, self.nxt, self.flush = "pk", "pa", "nxt", []

    def copy(self):
        c = St()
        c.pk, c.pa, c.nxt, c.flush = self.pk, self.pa, self.nxt, list(self.flush)
        return c

    def term(self):
        fl = "out" if not self.flush else "(out ++ [%s])" % "; ".join(self.flush)
        return "mkC (Some (%s, %s)) %s %s" % (self.pk, self.pa, self.nxt, fl)


def both_forms(s):
    """`if len_only: A else: B` whose branches are the length form and the array form of one update -> (A, B)"""
    if isinstance(s, ast.If) and name(s.test, "len_only") and len(s.body) == 1 and len(s.orelse) == 1:
        return s.body[0], s.orelse[0]
    return None


def run_stmts(stmts, st):
    for s in stmts:
        bf = both_forms(s)
        if bf:
            a, b = St(), St()
            a.__dict__.update(st.copy().__dict__)
            b.__dict__.update(st.copy().__dict__)
            run_stmts([bf[0]], a)
            run_stmts([bf[1]], b)
            if (a.pk, a.pa, a.nxt, a.flush) != (b.pk, b.pa, b.nxt, b.flush):
                raise Unsupported("the len_only and the array branch are not the same update: %r vs %r" % (a.term(), b.term()))
            st.__dict__.update(a.__dict__)
            continue
        if isinstance(s, ast.AugAssign) and isinstance(s.op, ast.Add) and name(s.target, "present_arr"):
            st.pa = "(cat %s %s)" % (st.pa, payload(s.value).replace("pa", st.pa) if payload(s.value) != "arr" else "arr")
            continue
        if isinstance(s, ast.Assign) and len(s.targets) == 1:
            t = s.targets[0]
            if name(t, "present_key"):
                st.pk = zexpr(s.value).replace("pk", st.pk)
                continue
            if name(t, "present_arr"):
                st.pa = payload(s.value).replace("pa", st.pa)
                continue
            if name(t, "next_cont_sample"):
                st.nxt = "(Some %s)" % zexpr(s.value).replace("pk", st.pk)
                continue
            if isinstance(t, ast.Subscript) and name(t.value, "ret_dict") and name(t.slice, "present_key") and name(s.value, "present_arr"):
                st.flush.append("(%s, %s)" % (st.pk, st.pa))
                continue
        raise Unsupported("statement in the loop: " + ast.dump(s)[:120])


def translate(repo="/repo"):
    tree = ast.parse(open(os.path.join(repo, "python/digital_rf/digital_rf_hdf5.py")).read())
    fn = find_fn(tree, "DigitalRFReader", "_combine_blocks")
    body = [s for s in fn.body if not (isinstance(s, ast.Expr) and isinstance(s.value, ast.Constant))]
    loop = [s for s in body if isinstance(s, ast.For)]
    if len(loop) != 1:
        raise Unsupported("one for loop expected")
    loop = loop[0]
    li = body.index(loop)
    pre, post = body[:li], body[li + 1:]
    # ---- before the loop
    seen = set()
    for s in pre:
        d = ast.dump(s)
        if isinstance(s, ast.Assign) and name(s.targets[0], "ret_dict") and isinstance(s.value, ast.Call) and "OrderedDict" in d:
            seen.add("ret")
        elif isinstance(s, ast.If) and "cont_data_dict" in d and len(s.body) == 1 and isinstance(s.body[0], ast.Return) and \
                name(s.body[0].value, "ret_dict") and isinstance(s.test, ast.Compare) and isinstance(s.test.ops[0], ast.Eq) and \
                isinstance(s.test.comparators[0], ast.Constant) and s.test.comparators[0].value == 0:
            seen.add("empty")
        elif isinstance(s, ast.Assign) and name(s.targets[0], "present_arr") and isinstance(s.value, ast.Constant) and s.value.value is None:
            seen.add("pa")
        elif isinstance(s, ast.Assign) and name(s.targets[0], "next_cont_sample") and isinstance(s.value, ast.Constant) and s.value.value is None:
            seen.add("nxt")
        else:
            raise Unsupported("statement before the loop: " + d[:120])
    if seen != {"ret", "empty", "pa", "nxt"}:
        raise Unsupported("initialisation incomplete: %r" % sorted(seen))
    # ---- the iteration
    it = loop.iter
    if not (isinstance(it, ast.Call) and name(it.func, "sorted") and len(it.args) == 1 and not it.keywords and
            isinstance(it.args[0], ast.Call) and isinstance(it.args[0].func, ast.Attribute) and it.args[0].func.attr == "items" and
            name(it.args[0].func.value, "cont_data_dict")):
        raise Unsupported("the loop must iterate over sorted(cont_data_dict.items())")
    if not (isinstance(loop.target, ast.Tuple) and [getattr(e, "id", None) for e in loop.target.elts] == ["key", "arr"]):
        raise Unsupported("loop target must be (key, arr)")
    # ---- the body: three-way test, then common statements
    if not loop.body or not isinstance(loop.body[0], ast.If):
        raise Unsupported("loop body must start with the three-way test")
    t0 = loop.body[0]
    if not (isinstance(t0.test, ast.Compare) and name(t0.test.left, "present_arr") and isinstance(t0.test.ops[0], ast.Is) and
            isinstance(t0.test.comparators[0], ast.Constant) and t0.test.comparators[0].value is None):
        raise Unsupported("first test must be `present_arr is None`")
    if not (len(t0.orelse) == 1 and isinstance(t0.orelse[0], ast.If)):
        raise Unsupported("elif expected")
    t1 = t0.orelse[0]
    c = t1.test
    if not (isinstance(c, ast.Compare) and len(c.ops) == 1 and isinstance(c.ops[0], ast.Eq)):
        raise Unsupported("continuity test must be an equality")
    sides = [c.left, c.comparators[0]]
    if not any(name(x, "next_cont_sample") for x in sides):
        raise Unsupported("continuity test must compare with next_cont_sample")
    other = [x for x in sides if not name(x, "next_cont_sample")][0]
    cont = "(%s =? n)" % zexpr(other)
    tail = loop.body[1:]
    first = St()
    first.pk, first.pa = None, None
    # branch 1: no present block yet
    b1 = St()
    b1.pk, b1.pa = "key", "arr"          # placeholders overwritten below
    s1 = St()
    s1.pk = s1.pa = "UNSET"
    run_stmts(t0.body, s1)
    if "UNSET" in s1.pk or "UNSET" in s1.pa or s1.flush:
        raise Unsupported("first branch must set present_key and present_arr from the piece")
    run_stmts(tail, s1)
    s2 = St()
    run_stmts(t1.body, s2)
    run_stmts(tail, s2)
    s3 = St()
    run_stmts(t1.orelse, s3)
    run_stmts(tail, s3)
    # ---- after the loop
    if not (len(post) == 2 and isinstance(post[0], ast.Assign) and isinstance(post[0].targets[0], ast.Subscript) and
            name(post[0].targets[0].value, "ret_dict") and name(post[0].targets[0].slice, "present_key") and
            name(post[0].value, "present_arr") and isinstance(post[1], ast.Return) and name(post[1].value, "ret_dict")):
        raise Unsupported("after the loop: ret_dict[present_key] = present_arr; return ret_dict")
    out = ["(* GENERATED by translate/combine2gallina.py from python/digital_rf/digital_rf_hdf5.py -- do not edit. *)",
           "From Coq Require Import ZArith List.", "Import ListNotations.", "Local Open Scope Z_scope.", "",
           "Section G.", "Context {X : Type} (cat : X -> X -> X) (size : X -> Z).", "",
           "(* present block (None before the first piece), next contiguous sample, finished blocks in insertion order *)",
           "Record cst := mkC { c_pres : option (Z * X); c_next : option Z; c_out : list (Z * X) }.", "",
           "Definition gen_combine_step (st : cst) (piece : Z * X) : cst :=",
           "  let key := fst piece in let arr := snd piece in let nxt := c_next st in let out := c_out st in",
           "  match c_pres st with",
           "  | None => %s" % s1.term(),
           "  | Some (pk, pa) =>",
           "    if (match nxt with Some n => %s | None => false end)" % cont,
           "    then %s" % s2.term(),
           "    else %s" % s3.term(),
           "  end.", "",
           "(* the pieces in the order of sorted(cont_data_dict.items()) *)",
           "Definition gen_combine (sorted_pieces : list (Z * X)) : list (Z * X) :=",
           "  match sorted_pieces with",
           "  | [] => []",
           "  | _ => let st := fold_left gen_combine_step sorted_pieces (mkC None None []) in",
           "         c_out st ++ (match c_pres st with Some b => [b] | None => [] end)",
           "  end.", "End G.", ""]
    return "\n".join(out)


if __name__ == "__main__":
    sys.stdout.write(translate(sys.argv[1] if len(sys.argv) > 1 else "/repo"))
