"""T7: the file-placement arithmetic of Digital Metadata -> Gallina (coq/Gen/MdPlaceGen.v).

From python/digital_rf/digital_metadata.py (Python's `ast`):
  DigitalMetadataWriter._sample_group_generator : the groupby key (file index of a sample), file_ts,
                                                   start_sub_ts
  DigitalMetadataReader._get_file_list          : start_ts / end_ts (seconds, then rounded to the file
                                                   cadence), start_sub_ts / end_sub_ts, the range() of
                                                   subdirectories, the np.arange() of candidate files in a
                                                   subdirectory and the validity mask
Only integer expressions over  //  *  +  -  int()  of the sample index, the rate fraction and the two
cadences are translated (Python's // on non-negative operands is Z.div); names, datetime formatting,
h5py and os calls are recognised and skipped.  Anything else makes the translator fail (fail-closed):
in particular an expression evaluated on the numpy array (where k*d would wrap modulo 2^64) is not an
integer expression of this grammar.
"""
import ast
import os
import sys

sys.path.insert(0, os.path.dirname(os.path.abspath(__file__)))
from c2gallina import Unsupported  # noqa: E402

SELFMAP = {"_sample_rate_numerator": "n", "_sample_rate_denominator": "d", "_file_cadence_secs": "fcv",
           "_subdir_cadence_secs": "scv"}


class Ex:
    def __init__(self, env=None):
        self.env = dict(env or {})

    def z(self, n):
        if isinstance(n, ast.Constant) and isinstance(n.value, int) and not isinstance(n.value, bool):
            return "(%d)" % n.value
        if isinstance(n, ast.Name):
            if n.id in self.env:
                return self.env[n.id]
            raise Unsupported("name " + n.id)
        if isinstance(n, ast.Attribute) and isinstance(n.value, ast.Name) and n.value.id == "self" and n.attr in SELFMAP:
            return SELFMAP[n.attr]
        if isinstance(n, ast.Call) and isinstance(n.func, ast.Name) and n.func.id == "int" and len(n.args) == 1 and not n.keywords:
            return self.z(n.args[0])
        if isinstance(n, ast.BinOp):
            ops = {ast.FloorDiv: "/", ast.Mult: "*", ast.Add: "+", ast.Sub: "-"}
            if type(n.op) in ops:
                return "(%s %s %s)" % (self.z(n.left), ops[type(n.op)], self.z(n.right))
            raise Unsupported("operator " + type(n.op).__name__)
        raise Unsupported("expression " + ast.dump(n)[:100])

    def b(self, n):
        if isinstance(n, ast.Compare) and len(n.ops) == 1:
            op = {ast.Lt: "<?", ast.LtE: "<=?", ast.Gt: ">?", ast.GtE: ">=?"}.get(type(n.ops[0]))
            if op is None:
                raise Unsupported("comparison")
            return "(%s %s %s)" % (self.z(n.left), op, self.z(n.comparators[0]))
        raise Unsupported("boolean " + ast.dump(n)[:100])


def find_fn(tree, cls, name):
    for c in tree.body:
        if isinstance(c, ast.ClassDef) and c.name == cls:
            for f in c.body:
                if isinstance(f, ast.FunctionDef) and f.name == name:
                    return f
    raise Unsupported("%s.%s not found" % (cls, name))


def assigns(fn):
    """top-level simple assignments of a function body, in order (name -> value node)"""
    out = []
    for s in fn.body:
        if isinstance(s, ast.Assign) and len(s.targets) == 1 and isinstance(s.targets[0], ast.Name):
            out.append((s.targets[0].id, s.value))
    return out


def translate(repo="/repo"):
    src = open(os.path.join(repo, "python/digital_rf/digital_metadata.py")).read()
    tree = ast.parse(src)
    out = []
    # ---------------- writer
    fn = find_fn(tree, "DigitalMetadataWriter", "_sample_group_generator")
    ex = Ex()
    loop = None
    for s in fn.body:
        if isinstance(s, ast.Expr) and isinstance(s.value, ast.Constant):
            continue
        if isinstance(s, ast.Assign) and isinstance(s.targets[0], ast.Name):
            ex.env[s.targets[0].id] = ex.z(s.value)
            continue
        if isinstance(s, ast.For):
            loop = s
            break
        raise Unsupported("_sample_group_generator: statement before the loop")
    if loop is None or not (isinstance(loop.iter, ast.Call) and isinstance(loop.iter.func, ast.Attribute) and loop.iter.func.attr == "groupby"
                            and len(loop.iter.args) == 2 and isinstance(loop.iter.args[0], ast.Name) and loop.iter.args[0].id == "samples"
                            and isinstance(loop.iter.args[1], ast.Lambda) and len(loop.iter.args[1].args.args) == 1):
        raise Unsupported("_sample_group_generator: expected `for file_idx, group in itertools.groupby(samples, lambda s: ...)`")
    lam = loop.iter.args[1]
    kex = Ex(ex.env)
    kex.env[lam.args.args[0].arg] = "s"
    key = kex.z(lam.body)
    if not (isinstance(loop.target, ast.Tuple) and isinstance(loop.target.elts[0], ast.Name)):
        raise Unsupported("_sample_group_generator: loop target")
    bex = Ex(ex.env)
    bex.env[loop.target.elts[0].id] = "file_idx"
    vals = {}
    for s in loop.body:
        if isinstance(s, ast.Assign) and isinstance(s.targets[0], ast.Name) and s.targets[0].id in ("file_ts", "start_sub_ts"):
            vals[s.targets[0].id] = bex.z(s.value)
            bex.env[s.targets[0].id] = s.targets[0].id
    if set(vals) != {"file_ts", "start_sub_ts"}:
        raise Unsupported("_sample_group_generator: file_ts / start_sub_ts not found")
    out += ["(* writer: groupby key, file_ts, start_sub_ts *)",
            "Definition gen_w_file_idx (n d fcv scv s : Z) : Z := %s." % key,
            "Definition gen_w_file_ts (n d fcv scv file_idx : Z) : Z := %s." % vals["file_ts"],
            "Definition gen_w_sub_ts (n d fcv scv file_ts : Z) : Z := %s." % vals["start_sub_ts"], ""]
    # ---------------- reader
    fn = find_fn(tree, "DigitalMetadataReader", "_get_file_list")
    ex = Ex({"sample0": "sample0", "sample1": "sample1"})
    hist = {}
    loop = None
    for s in fn.body:
        if isinstance(s, ast.Expr) and isinstance(s.value, ast.Constant):
            continue
        if isinstance(s, ast.Assign) and isinstance(s.targets[0], ast.Name):
            nm = s.targets[0].id
            if isinstance(s.value, ast.List):          # ret_list = []
                continue
            ex.env[nm] = ex.z(s.value)
            hist[nm] = ex.env[nm]
            continue
        if isinstance(s, ast.For):
            loop = s
            continue
        if isinstance(s, ast.Return):
            continue
        raise Unsupported("_get_file_list: statement " + ast.dump(s)[:80])
    for k in ("start_ts", "end_ts", "start_sub_ts", "end_sub_ts"):
        if k not in hist:
            raise Unsupported("_get_file_list: %s not computed" % k)
    if loop is None or not (isinstance(loop.iter, ast.Call) and isinstance(loop.iter.func, ast.Name) and loop.iter.func.id == "range"
                            and len(loop.iter.args) == 3 and isinstance(loop.target, ast.Name)):
        raise Unsupported("_get_file_list: expected `for sub_ts in range(lo, hi, step)`")
    rex = Ex({"start_sub_ts": "start_sub", "end_sub_ts": "end_sub"})
    rng = [rex.z(a) for a in loop.iter.args]
    lex = Ex({loop.target.id: "sub_ts", "start_ts": "start_ts", "end_ts": "end_ts"})
    arange = mask = None
    for s in loop.body:
        if isinstance(s, ast.Assign) and isinstance(s.targets[0], ast.Name) and isinstance(s.value, ast.Call) and \
                isinstance(s.value.func, ast.Attribute):
            if s.value.func.attr == "arange" and len(s.value.args) == 3:
                arange = [lex.z(a) for a in s.value.args]
                lex.env[s.targets[0].id] = "file_ts"             # elementwise from here on
            elif s.value.func.attr == "logical_and" and len(s.value.args) == 2:
                mask = "(%s && %s)" % (lex.b(s.value.args[0]), lex.b(s.value.args[1]))
    if arange is None or mask is None:
        raise Unsupported("_get_file_list: np.arange / np.logical_and not found")
    out += ["(* reader: seconds of the two ends rounded to the file cadence, their subdirectories *)",
            "Definition gen_r_start_ts (n d fcv scv sample0 : Z) : Z := %s." % hist["start_ts"],
            "Definition gen_r_end_ts (n d fcv scv sample1 : Z) : Z := %s." % hist["end_ts"],
            "Definition gen_r_start_sub (n d fcv scv sample0 : Z) : Z := %s." % hist["start_sub_ts"],
            "Definition gen_r_end_sub (n d fcv scv sample1 : Z) : Z := %s." % hist["end_sub_ts"],
            "(* for sub_ts in range(lo, hi, step) ; np.arange(lo, hi, step) ; the validity mask *)",
            "Definition gen_r_sub_range (fcv scv start_sub end_sub : Z) : Z * Z * Z := (%s, %s, %s)." % tuple(rng),
            "Definition gen_r_file_range (fcv scv sub_ts : Z) : Z * Z * Z := (%s, %s, %s)." % tuple(arange),
            "Definition gen_r_valid (fcv scv start_ts end_ts file_ts : Z) : bool := %s." % mask, ""]
    head = ["(* GENERATED by translate/mdplace2gallina.py from python/digital_rf/digital_metadata.py -- do not edit. *)",
            "From Coq Require Import ZArith Bool.",
            "Local Open Scope Z_scope.", ""]
    return "\n".join(head + out)


if __name__ == "__main__":
    sys.stdout.write(translate(sys.argv[1] if len(sys.argv) > 1 else "/repo"))
