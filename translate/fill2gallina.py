"""T5: digital_rf_set_fill_value -> Gallina table (coq/Gen/FillTable.v).

The function chooses, from the element type's class / sign / size / byte order and the complex flag,
which local object's bytes are handed to H5Pset_fill_value and under which type id.  Its domain is
finite (10 element types x 2 byte orders x real/complex), so instead of translating the control flow
the translator *executes* the function's clang AST once per cell with the HDF5 queries stubbed
(H5Tget_class/size/sign/order answer for the cell; digital_rf_is_little_endian() = 1: the models
describe a little-endian host) and records the H5Pset_fill_value call: the type id used and the
byte image of the object passed (as many bytes as that type has).  Fail-closed: an AST node the
interpreter does not know raises Unsupported.  Object images are little-endian host bytes; NAN
(__builtin_nanf / __builtin_nan) is the canonical quiet NaN 0x7FC00000 / 0x7FF8000000000000.
"""
import os
import sys

sys.path.insert(0, os.path.dirname(os.path.abspath(__file__)))
from c2gallina import Unsupported, clang_ast  # noqa: E402

SIZES = {"int8_t": 1, "uint8_t": 1, "int16_t": 2, "uint16_t": 2, "int32_t": 4, "uint32_t": 4, "int64_t": 8, "uint64_t": 8,
         "int": 4, "unsigned int": 4, "long": 8, "unsigned long": 8, "float": 4, "double": 8, "char": 1,
         "H5T_class_t": 4, "H5T_sign_t": 4, "H5T_order_t": 4, "size_t": 8}
NANBITS = {4: 0x7FC00000, 8: 0x7FF8000000000000}
IGNORED = {"H5Eprint2", "fprintf", "snprintf"}


class Ret(Exception):
    def __init__(self, v):
        self.v = v


class Brk(Exception):
    pass


def le(v, n):
    v %= 1 << (8 * n)
    return [(v >> (8 * i)) & 255 for i in range(n)]


class Interp:
    def __init__(self, cell):
        self.cell = cell          # dict(cls, sign, size, order, is_complex)
        self.env = {}             # name -> [ctype, value]
        self.structs = {}         # struct tag -> [(field, ctype)]
        self.calls = []           # recorded H5Pset_fill_value: (type id name, image)

    # ---- types and images
    def tysize(self, ty):
        ty = ty.replace("const ", "").strip()
        if ty.endswith("]"):
            base, n = ty[:-1].split("[")
            return self.tysize(base.strip()) * int(n)
        if ty.startswith("struct "):
            return sum(self.tysize(t) for _, t in self.structs[ty[7:].strip()])
        if ty in SIZES:
            return SIZES[ty]
        raise Unsupported("size of type " + ty)

    def image(self, ty, val):
        ty = ty.replace("const ", "").strip()
        if ty.endswith("]"):
            base = ty[:-1].split("[")[0].strip()
            return [b for v in val for b in self.image(base, v)]
        if ty.startswith("struct "):
            return [b for (f, t), v in zip(self.structs[ty[7:].strip()], val) for b in self.image(t, v)]
        n = self.tysize(ty)
        if isinstance(val, tuple) and val[0] == "nan":
            return le(NANBITS[n], n)
        if isinstance(val, tuple) and val[0] == "bits":
            if len(val[1]) != n:
                raise Unsupported("bit image of wrong size")
            return list(val[1])
        if val is None:
            raise Unsupported("use of an uninitialised object")
        if isinstance(val, int):
            if ty in ("float", "double"):
                raise Unsupported("integer value in a floating object")
            return le(val, n)
        raise Unsupported("image of %r" % (val,))

    # ---- lvalues: (name, path)
    def lval(self, n):
        k = n["kind"]
        if k in ("ParenExpr", "ImplicitCastExpr", "CStyleCastExpr"):
            return self.lval(n["inner"][0])
        if k == "DeclRefExpr" and n["referencedDecl"]["kind"] == "VarDecl":
            return (n["referencedDecl"]["name"], [])
        if k == "ArraySubscriptExpr":
            nm, path = self.lval(n["inner"][0])
            idx = self.rval(n["inner"][1])
            if not isinstance(idx, int):
                raise Unsupported("symbolic array index")
            return (nm, path + [idx])
        if k == "MemberExpr" and not n.get("isArrow"):
            nm, path = self.lval(n["inner"][0])
            return (nm, path + [n["name"]])
        raise Unsupported("lvalue " + k)

    def resolve(self, ref):
        nm, path = ref
        ty, val = self.env[nm]
        for p in path:
            ty = ty.replace("const ", "").strip()
            if isinstance(p, int):
                if not ty.endswith("]"):
                    raise Unsupported("subscript of a non-array")
                cnt = int(ty[:-1].split("[")[1])
                if not 0 <= p < cnt:
                    raise Unsupported("array index %d out of bounds" % p)
                ty = ty[:-1].split("[")[0].strip()
                val = val[p]
            else:
                fs = self.structs[ty[7:].strip()]
                i = [f for f, _ in fs].index(p)
                ty, val = fs[i][1], val[i]
        return ty, val

    def store(self, ref, newval):
        nm, path = ref
        if not path:
            self.env[nm][1] = newval
            return
        ty, val = self.env[nm]
        cur = val
        for p in path[:-1]:
            ty = ty.replace("const ", "").strip()
            if isinstance(p, int):
                ty = ty[:-1].split("[")[0].strip()
                cur = cur[p]
            else:
                fs = self.structs[ty[7:].strip()]
                i = [f for f, _ in fs].index(p)
                ty, cur = fs[i][1], cur[i]
        p = path[-1]
        if isinstance(p, int):
            cur[p] = newval
        else:
            fs = self.structs[ty.replace("const ", "").strip()[7:].strip()]
            cur[[f for f, _ in fs].index(p)] = newval

    # ---- rvalues
    def rval(self, n):
        k = n["kind"]
        if k in ("ParenExpr", "ConstantExpr"):
            return self.rval(n["inner"][0])
        if k in ("ImplicitCastExpr", "CStyleCastExpr"):
            v = self.rval(n["inner"][0])
            if n.get("castKind") == "IntegralCast" and isinstance(v, int):
                ty = n["type"]["qualType"]
                if ty in SIZES and not ty.startswith("H5T"):
                    bits = 8 * SIZES[ty]
                    v %= 1 << bits
                    if not ty.startswith("u") and ty not in ("size_t", "unsigned int", "unsigned long") and v >= 1 << (bits - 1):
                        v -= 1 << bits
            return v
        if k == "IntegerLiteral":
            return int(n["value"])
        if k == "StringLiteral":
            return ("str", n.get("value"))
        if k == "DeclRefExpr":
            d = n["referencedDecl"]
            if d["kind"] == "EnumConstantDecl":
                return ("enum", d["name"])
            if d["kind"] == "VarDecl":
                if d["name"] == "stderr":
                    return ("stderr",)
                ty, v = self.resolve((d["name"], []))
                if v is None:
                    raise Unsupported("read of uninitialised %s" % d["name"])
                return v
            if d["kind"] == "ParmVarDecl":
                return ("obj",)
            raise Unsupported("reference to " + d["kind"])
        if k in ("ArraySubscriptExpr",):
            ty, v = self.resolve(self.lval(n))
            if v is None:
                raise Unsupported("read of an uninitialised element")
            return v
        if k == "MemberExpr":
            if n.get("isArrow"):
                f = n["name"]
                if f == "is_complex":
                    return int(self.cell["is_complex"])
                if f in ("dtype_id", "complex_dtype_id", "dataset_prop"):
                    return ("field", f)
                raise Unsupported("read of writer-object field " + f)
            ty, v = self.resolve(self.lval(n))
            return v
        if k == "UnaryOperator":
            op = n["opcode"]
            if op == "&":
                return ("ref", self.lval(n["inner"][0]))
            v = self.rval(n["inner"][0])
            if op == "-" and isinstance(v, int):
                return -v
            if op == "!":
                return int(not self.truth(v))
            raise Unsupported("unary " + op)
        if k == "BinaryOperator":
            op = n["opcode"]
            if op == "&&":
                return int(self.truth(self.rval(n["inner"][0])) and self.truth(self.rval(n["inner"][1])))
            if op == "||":
                return int(self.truth(self.rval(n["inner"][0])) or self.truth(self.rval(n["inner"][1])))
            a, b = self.rval(n["inner"][0]), self.rval(n["inner"][1])
            if op in ("==", "!="):
                if isinstance(a, tuple) != isinstance(b, tuple):
                    raise Unsupported("comparison of an enumerator with a number")
                return int((a == b) == (op == "=="))
            if isinstance(a, int) and isinstance(b, int):
                if op == "+":
                    return a + b
                if op == "-":
                    return a - b
                if op == "*":
                    return a * b
                if op in ("<", "<=", ">", ">="):
                    return int({"<": a < b, "<=": a <= b, ">": a > b, ">=": a >= b}[op])
            raise Unsupported("binary " + op)
        if k == "ConditionalOperator":
            c = self.truth(self.rval(n["inner"][0]))
            return self.rval(n["inner"][1 if c else 2])
        if k == "UnaryExprOrTypeTraitExpr":
            if n.get("name") == "sizeof":
                ty = n.get("argType", {}).get("qualType") or n["inner"][0]["type"]["qualType"]
                return self.tysize(ty)
            raise Unsupported("type trait")
        if k == "CallExpr":
            return self.call(n)
        if k == "InitListExpr":
            return [self.rval(c) for c in n.get("inner", [])]
        raise Unsupported("expression " + k)

    def truth(self, v):
        if isinstance(v, int):
            return v != 0
        raise Unsupported("truth value of a non-integer")

    def call(self, n):
        f = n["inner"][0]
        while f["kind"] in ("ImplicitCastExpr", "ParenExpr"):
            f = f["inner"][0]
        name = f["referencedDecl"]["name"]
        args = n["inner"][1:]
        c = self.cell
        if name in ("__builtin_nanf", "__builtin_nan"):
            return ("nan", 4 if name.endswith("f") else 8)
        if name == "digital_rf_is_little_endian":
            return 1
        if name in ("H5Tget_order", "H5Tget_class", "H5Tget_sign", "H5Tget_size"):
            if self.rval(args[0]) != ("field", "dtype_id"):
                raise Unsupported(name + " of something other than dtype_id")
            return {"H5Tget_order": ("enum", c["order"]), "H5Tget_class": ("enum", c["cls"]),
                    "H5Tget_sign": ("enum", c["sign"]), "H5Tget_size": c["size"]}[name]
        if name == "memcpy":
            dst, src, cnt = self.rval(args[0]), self.rval(args[1]), self.rval(args[2])
            if not (isinstance(dst, tuple) and dst[0] == "ref" and isinstance(src, tuple) and src[0] == "ref"):
                raise Unsupported("memcpy arguments")
            sty, sval = self.resolve(src[1])
            dty, _ = self.resolve(dst[1])
            img = self.image(sty, sval)
            if cnt != self.tysize(dty) or cnt > len(img):
                raise Unsupported("memcpy size")
            self.store(dst[1], ("bits", tuple(img[:cnt])))
            return 0
        if name == "H5Pset_fill_value":
            prop, tid, addr = self.rval(args[0]), self.rval(args[1]), self.rval(args[2])
            if prop != ("field", "dataset_prop") or not (isinstance(tid, tuple) and tid[0] == "field"):
                raise Unsupported("H5Pset_fill_value arguments")
            if not (isinstance(addr, tuple) and addr[0] == "ref"):
                raise Unsupported("H5Pset_fill_value buffer")
            ty, val = self.resolve(addr[1])
            img = self.image(ty, val)
            need = c["size"] * (2 if tid[1] == "complex_dtype_id" else 1)
            if len(img) < need:
                raise Unsupported("fill buffer smaller than the type it is read as")
            self.calls.append((tid[1], img[:need]))
            return 0
        if name in IGNORED:
            return 0
        raise Unsupported("call of " + name)

    # ---- statements
    def stmt(self, s):
        k = s["kind"]
        if k == "CompoundStmt":
            for c in s.get("inner", []):
                self.stmt(c)
        elif k == "DeclStmt":
            for d in s["inner"]:
                if d["kind"] == "RecordDecl":
                    self.structs[d["name"]] = [(f["name"], f["type"]["qualType"]) for f in d["inner"] if f["kind"] == "FieldDecl"]
                elif d["kind"] == "VarDecl":
                    init = [c for c in d.get("inner", [])]
                    self.env[d["name"]] = [d["type"]["qualType"], self.rval(init[0]) if init else None]
                    if not init and d["type"]["qualType"].startswith("struct "):
                        self.env[d["name"]][1] = [None for _ in self.structs[d["type"]["qualType"][7:].strip()]]
                else:
                    raise Unsupported("declaration " + d["kind"])
        elif k == "BinaryOperator" and s.get("opcode") == "=":
            self.store(self.lval(s["inner"][0]), self.rval(s["inner"][1]))
        elif k == "IfStmt":
            if self.truth(self.rval(s["inner"][0])):
                self.stmt(s["inner"][1])
            elif len(s["inner"]) > 2:
                self.stmt(s["inner"][2])
        elif k == "SwitchStmt":
            v = self.rval(s["inner"][0])
            body = s["inner"][1].get("inner", [])
            # flatten: CaseStmt nodes wrap their first statement
            seq = []

            def flat(n):
                if n["kind"] == "CaseStmt":
                    seq.append(("case", self.rval(n["inner"][0])))
                    flat(n["inner"][-1])
                elif n["kind"] == "DefaultStmt":
                    seq.append(("default", None))
                    flat(n["inner"][-1])
                else:
                    seq.append(("stmt", n))
            for b in body:
                flat(b)
            start = None
            for i, (t, x) in enumerate(seq):
                if t == "case" and x == v:
                    start = i
                    break
            if start is None:
                for i, (t, x) in enumerate(seq):
                    if t == "default":
                        start = i
                        break
            if start is not None:
                try:
                    for t, x in seq[start:]:
                        if t == "stmt":
                            self.stmt(x)
                except Brk:
                    pass
        elif k == "BreakStmt":
            raise Brk()
        elif k == "ReturnStmt":
            raise Ret(self.rval(s["inner"][0]))
        elif k == "CallExpr":
            self.call(s)
        elif k == "NullStmt":
            pass
        else:
            raise Unsupported("statement " + k)


CELLS = [("KI", 1), ("KI", 2), ("KI", 4), ("KI", 8), ("KU", 1), ("KU", 2), ("KU", 4), ("KU", 8), ("KF", 4), ("KF", 8)]


def run_cell(fn, kind, size, be, cx):
    cell = {"cls": "H5T_FLOAT" if kind == "KF" else "H5T_INTEGER", "sign": "H5T_SGN_NONE" if kind == "KU" else "H5T_SGN_2",
            "size": size, "order": "H5T_ORDER_BE" if be else "H5T_ORDER_LE", "is_complex": cx}
    it = Interp(cell)
    body = [c for c in fn["inner"] if c.get("kind") == "CompoundStmt"][0]
    try:
        it.stmt(body)
        ret = None
    except Ret as r:
        ret = r.v
    return ret, it.calls


def translate(repo="/repo"):
    fn = clang_ast(os.path.join(repo, "c/lib/rf_write_hdf5.c"), "digital_rf_set_fill_value", repo)
    rows = []
    for kind, size in CELLS:
        for be in (False, True):
            for cx in (False, True):
                ret, calls = run_cell(fn, kind, size, be, cx)
                calls_s = "[" + "; ".join("(%s, [%s])" % ("true" if t == "complex_dtype_id" else "false", "; ".join(map(str, img)))
                                          for t, img in calls) + "]"
                rows.append("  (mkCell %s %d %s %s, (%s, %s))" % (kind, size, "true" if be else "false", "true" if cx else "false",
                                                                   "(%d)" % ret if isinstance(ret, int) else "(-99)", calls_s))
    return "\n".join([
        "(* GENERATED by translate/fill2gallina.py from digital_rf_set_fill_value (c/lib/rf_write_hdf5.c) -- do not edit.",
        "   For each cell: the function's return value and its H5Pset_fill_value calls, each as",
        "   (complex type id used?, the bytes of the object passed, host order, as many as the type has). *)",
        "From Coq Require Import ZArith List Bool.",
        "From DRF Require Import Model.FillValue.",
        "Import ListNotations.",
        "Local Open Scope Z_scope.",
        "",
        "Definition fill_table : list (cell * (Z * list (bool * list Z))) := [",
        ";\n".join(rows) + "].",
        ""])


if __name__ == "__main__":
    sys.stdout.write(translate(sys.argv[1] if len(sys.argv) > 1 else "/repo"))
