"""T15: the handler set DigitalRFMirror.__init__ builds -> Gallina (coq/Gen/MirrorInitGen.v).

From python/digital_rf/mirror.py (Python's `ast`), class DigitalRFMirror, __init__:
  * the method check (`method not in ("move", "copy", "link")` raises) and the normalisation
    (`method == "link"` sets link; `method == "copy" and link` becomes "link") must be present verbatim:
    after them self.method is one of "move", "copy", "link" and `self.method in ("copy", "link")` is
    `not move`;
  * `copylike_mirror_fun` must be LinkWithFallback() under `self.link`, shutil.copy2 otherwise;
  * every `self.event_handlers.append(h)` in statement order, with the condition of the enclosing `if`
    (none, or one `if` at the top level of __init__), the class of h, its mirror function / count, and its
    include_* keyword arguments as boolean expressions over (include_drf, include_dmd, method == "move").
    starttime / endtime must be passed as self.starttime / self.endtime.
From python/digital_rf/ringbuffer.py: DigitalRFRingbufferHandlerBase.__init__ must pass
include_drf_properties=False and include_dmd_properties=False to its base (the ring buffer never sees a
properties file).
Anything else that touches event_handlers, or an expression outside the grammar, makes the translator fail.
"""
import ast
import os
import sys

sys.path.insert(0, os.path.dirname(os.path.abspath(__file__)))
from c2gallina import Unsupported  # noqa: E402
from mdplace2gallina import find_fn  # noqa: E402

NORMALISE = ("If(test=Compare(left=Attribute(value=Name(id='self', ctx=Load()), attr='method', ctx=Load()), ops=[Eq()], "
             "comparators=[Constant(value='link')]), body=[Assign(targets=[Attribute(value=Name(id='self', ctx=Load()), "
             "attr='link', ctx=Store())], value=Constant(value=True))], orelse=[If(test=BoolOp(op=And(), values=[Compare("
             "left=Attribute(value=Name(id='self', ctx=Load()), attr='method', ctx=Load()), ops=[Eq()], comparators=["
             "Constant(value='copy')]), Attribute(value=Name(id='self', ctx=Load()), attr='link', ctx=Load())]), body=["
             "Assign(targets=[Attribute(value=Name(id='self', ctx=Load()), attr='method', ctx=Store())], value=Constant("
             "value='link'))], orelse=[])])")
METHOD_CHECK = ("Compare(left=Name(id='method', ctx=Load()), ops=[NotIn()], comparators=[Tuple(elts=[Constant(value='move'), "
                "Constant(value='copy'), Constant(value='link')], ctx=Load())])")


def is_self_attr(n, name=None):
    return isinstance(n, ast.Attribute) and isinstance(n.value, ast.Name) and n.value.id == "self" and \
        (name is None or n.attr == name)


def bexpr(n):
    if isinstance(n, ast.Constant) and isinstance(n.value, bool):
        return "true" if n.value else "false"
    if is_self_attr(n, "include_drf"):
        return "drf"
    if is_self_attr(n, "include_dmd"):
        return "dmd"
    if isinstance(n, ast.BoolOp):
        op = " && " if isinstance(n.op, ast.And) else " || "
        return "(" + op.join(bexpr(v) for v in n.values) + ")"
    if isinstance(n, ast.UnaryOp) and isinstance(n.op, ast.Not):
        return "(negb %s)" % bexpr(n.operand)
    if isinstance(n, ast.Compare) and len(n.ops) == 1 and is_self_attr(n.left, "method"):
        c = n.comparators[0]
        if isinstance(n.ops[0], ast.Eq) and isinstance(c, ast.Constant) and c.value == "move":
            return "is_move"
        if isinstance(n.ops[0], ast.In) and isinstance(c, ast.Tuple) and \
                sorted(e.value for e in c.elts if isinstance(e, ast.Constant)) == ["copy", "link"] and len(c.elts) == 2:
            return "(negb is_move)"
    raise Unsupported("boolean expression " + ast.dump(n)[:160])


def handler_of(call, copylike_ok):
    """(gfun text, flags text) of a handler constructor call"""
    kw = {k.arg: k.value for k in call.keywords}
    f = call.func
    for t in ("starttime", "endtime"):
        if t in kw and not is_self_attr(kw[t], t):
            raise Unsupported("%s must be passed as self.%s" % (t, t))
        if t not in kw:
            raise Unsupported("%s not passed to a handler" % t)

    def flag(name, optional=False):
        if name not in kw:
            if optional:
                return "None"
            raise Unsupported("keyword %s missing" % name)
        return ("(Some %s)" % bexpr(kw[name])) if optional else bexpr(kw[name])
    if isinstance(f, ast.Name) and f.id == "DigitalRFMirrorHandler":
        args = call.args
        if not (len(args) == 2 and is_self_attr(args[0], "src") and is_self_attr(args[1], "dest")):
            raise Unsupported("mirror handler must be built on (self.src, self.dest)")
        mf = kw.get("mirror_fun")
        if isinstance(mf, ast.Name) and mf.id == "copylike_mirror_fun" and copylike_ok:
            g = "GCopyLike"
        elif isinstance(mf, ast.Attribute) and isinstance(mf.value, ast.Name) and mf.value.id == "shutil" and mf.attr == "move":
            g = "GShutilMove"
        else:
            raise Unsupported("mirror_fun " + (ast.dump(mf)[:80] if mf is not None else "missing"))
        return g, "mkGF %s %s %s %s" % (flag("include_drf"), flag("include_dmd"), flag("include_drf_properties", True),
                                        flag("include_dmd_properties", True))
    if isinstance(f, ast.Attribute) and isinstance(f.value, ast.Name) and f.value.id == "ringbuffer" and \
            f.attr == "DigitalRFRingbufferHandler":
        allowed = {"count", "verbose", "dryrun", "starttime", "endtime", "include_drf", "include_dmd"}
        if set(kw) - allowed or call.args:
            raise Unsupported("ring buffer handler arguments %r" % sorted(set(kw) - allowed))
        c = kw.get("count")
        if not (isinstance(c, ast.Constant) and isinstance(c.value, int)):
            raise Unsupported("ring buffer count")
        d = kw.get("dryrun")
        if d is not None and not (isinstance(d, ast.Constant) and d.value is False):
            raise Unsupported("ring buffer dryrun")
        return "(GRingbuffer %d)" % c.value, "mkGF %s %s (Some false) (Some false)" % (flag("include_drf"), flag("include_dmd"))
    raise Unsupported("handler class " + ast.dump(f)[:80])


def mentions(n, name):
    return any(isinstance(x, ast.Attribute) and x.attr == name for x in ast.walk(n))


def translate(repo="/repo"):
    tree = ast.parse(open(os.path.join(repo, "python/digital_rf/mirror.py")).read())
    fn = find_fn(tree, "DigitalRFMirror", "__init__")
    params = [a.arg for a in fn.args.args]
    seen_check = seen_norm = False
    copylike_ok = False
    handlers = {}
    entries = []
    inited = False
    for s in fn.body:
        d = ast.dump(s)
        if isinstance(s, ast.Expr) and isinstance(s.value, ast.Constant):
            continue
        if isinstance(s, ast.If) and ast.dump(s.test) == METHOD_CHECK and len(s.body) == 1 and isinstance(s.body[0], ast.Raise):
            seen_check = True
            continue
        if d == NORMALISE:
            if entries or handlers:
                raise Unsupported("method normalisation after a handler was built")
            seen_norm = True
            continue
        if isinstance(s, ast.Assign) and len(s.targets) == 1 and is_self_attr(s.targets[0]):
            t = s.targets[0].attr
            if t == "event_handlers":
                if not (isinstance(s.value, ast.List) and not s.value.elts) or inited:
                    raise Unsupported("event_handlers must start as one empty list")
                inited = True
                continue
            if t in ("include_drf", "include_dmd", "method", "link", "starttime", "endtime"):
                if not (isinstance(s.value, ast.Name) and s.value.id == t and t in params):
                    raise Unsupported("self.%s must be the parameter %s" % (t, t))
                if entries or handlers:
                    raise Unsupported("self.%s assigned after a handler was built" % t)
            continue
        if isinstance(s, ast.If) and is_self_attr(s.test, "link") and not mentions(s, "event_handlers"):
            # if self.link: class LinkWithFallback ...; copylike_mirror_fun = LinkWithFallback()  else: ... = shutil.copy2
            a = [x for x in s.body if isinstance(x, ast.Assign)]
            b = [x for x in s.orelse if isinstance(x, ast.Assign)]
            if len(a) == 1 and len(b) == 1 and all(isinstance(x.targets[0], ast.Name) and x.targets[0].id == "copylike_mirror_fun" for x in a + b) \
                    and isinstance(a[0].value, ast.Call) and isinstance(a[0].value.func, ast.Name) and a[0].value.func.id == "LinkWithFallback" \
                    and isinstance(b[0].value, ast.Attribute) and b[0].value.attr == "copy2":
                copylike_ok = True
                continue
            raise Unsupported("copylike_mirror_fun selection")

        def take(stmts, guard):
            for x in stmts:
                if isinstance(x, ast.Assign) and len(x.targets) == 1 and isinstance(x.targets[0], ast.Name) and isinstance(x.value, ast.Call) \
                        and not mentions(x, "event_handlers"):
                    try:
                        handlers[x.targets[0].id] = handler_of(x.value, copylike_ok)
                    except Unsupported:
                        if "Handler" in ast.dump(x.value.func):
                            raise
                    continue
                if isinstance(x, ast.Expr) and isinstance(x.value, ast.Call) and isinstance(x.value.func, ast.Attribute) and \
                        x.value.func.attr == "append" and is_self_attr(x.value.func.value, "event_handlers"):
                    a = x.value.args
                    if not (len(a) == 1 and isinstance(a[0], ast.Name) and a[0].id in handlers) or not inited:
                        raise Unsupported("event_handlers.append of something that is not a handler built here")
                    entries.append((guard, handlers[a[0].id]))
                    continue
                if mentions(x, "event_handlers"):
                    raise Unsupported("event_handlers used in " + ast.dump(x)[:100])
        if isinstance(s, ast.If) and mentions(s, "event_handlers"):
            if s.orelse:
                raise Unsupported("else branch around a handler")
            take(s.body, bexpr(s.test))
            continue
        if mentions(s, "event_handlers"):
            take([s], "true")
            continue
        take([s], "true")
    if not (seen_check and seen_norm and copylike_ok and inited):
        raise Unsupported("method check / normalisation / copylike selection / event_handlers = [] not all found")
    if not entries:
        raise Unsupported("no handler appended")
    # the ring buffer handler class never asks for properties files
    rt = ast.parse(open(os.path.join(repo, "python/digital_rf/ringbuffer.py")).read())
    rf = find_fn(rt, "DigitalRFRingbufferHandlerBase", "__init__")
    ok = False
    for c in ast.walk(rf):
        if isinstance(c, ast.Call) and isinstance(c.func, ast.Attribute) and c.func.attr == "__init__":
            kw = {k.arg: k.value for k in c.keywords}
            ok = all(isinstance(kw.get(k), ast.Constant) and kw[k].value is False for k in ("include_drf_properties", "include_dmd_properties")) \
                and all(isinstance(kw.get(k), ast.Name) and kw[k].id == k for k in ("include_drf", "include_dmd", "starttime", "endtime"))
    if not ok:
        raise Unsupported("DigitalRFRingbufferHandlerBase.__init__ no longer passes include_*_properties=False / its own flags to the base")
    lines = ["(* GENERATED by translate/mirrorinit2gallina.py from python/digital_rf/mirror.py -- do not edit. *)",
             "From Coq Require Import ZArith List Bool.",
             "From DRF Require Import Model.MirrorInitBase.",
             "Import ListNotations.", "",
             "(* self.event_handlers in list order; is_move = (self.method == \"move\") after the normalisation *)",
             "Definition gen_event_handlers (is_move drf dmd : bool) : list (gfun * gflags) :="]
    parts = ["  (if %s then [(%s, %s)] else [])" % (g, h[0], h[1]) for g, h in entries]
    lines.append(" ++\n".join(parts) + ".")
    return "\n".join(lines) + "\n"


if __name__ == "__main__":
    sys.stdout.write(translate(sys.argv[1] if len(sys.argv) > 1 else "/repo"))
