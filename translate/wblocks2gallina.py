"""T11: the control skeleton of digital_rf_write_blocks_hdf5 -> Gallina (coq/Gen/WBlocksGen.v).

The function is: a chain of `if (<test>) { messages; return <code>; }` rejections, a block that only
tunes HDF5 chunking, the loop
    while (samples_written < vector_length) {
        n = digital_rf_write_samples_to_file(...); if (n == 0) { message; return <code>; }  samples_written += n; }
and `return 0`.  The translator (clang JSON AST) extracts the ordered rejections as (test, code) over the
symbols  has_failure / vector_null / g0 (global_index_arr[0]) / global_index / is_continuous / index_len,
checks that the loop has exactly that shape (no other statement in it -- in particular nothing that
touches has_failure), and records the loop-failure and the final return values.  Fail-closed.
"""
import os
import sys

sys.path.insert(0, os.path.dirname(os.path.abspath(__file__)))
from c2gallina import Unsupported, clang_ast  # noqa: E402

OBJ = "hdf5_data_object"
MSG = {"fprintf", "snprintf"}


def strip(n):
    while n.get("kind") in ("ImplicitCastExpr", "ParenExpr", "CStyleCastExpr"):
        n = n["inner"][0]
    return n


def callee(n):
    n = strip(n)
    if n.get("kind") == "CallExpr":
        f = strip(n["inner"][0])
        if f.get("kind") == "DeclRefExpr":
            return f["referencedDecl"]["name"]
    return None


def zexpr(n):
    n = strip(n)
    k = n.get("kind")
    if k == "IntegerLiteral":
        return "(%d)" % int(n["value"])
    if k == "MemberExpr" and strip(n["inner"][0]).get("referencedDecl", {}).get("name") == OBJ:
        if n["name"] in ("has_failure", "global_index", "is_continuous"):
            return n["name"]
        raise Unsupported("field " + n["name"])
    if k == "DeclRefExpr":
        nm = n["referencedDecl"]["name"]
        if nm in ("index_len", "vector_length", "samples_written", "dataset_samples_written"):
            return nm
        raise Unsupported("variable " + nm)
    if k == "ArraySubscriptExpr":
        a, i = strip(n["inner"][0]), strip(n["inner"][1])
        if a.get("referencedDecl", {}).get("name") == "global_index_arr" and i.get("kind") == "IntegerLiteral" and int(i["value"]) == 0:
            return "g0"
        raise Unsupported("array access")
    raise Unsupported("expression " + str(k))


def bexpr(n):
    n = strip(n)
    k = n.get("kind")
    if k == "BinaryOperator":
        op = n["opcode"]
        a, b = n["inner"]
        if op == "&&":
            return "(%s && %s)" % (bexpr(a), bexpr(b))
        if op == "||":
            return "(%s || %s)" % (bexpr(a), bexpr(b))
        m = {"<": "<?", "<=": "<=?", ">": ">?", ">=": ">=?", "==": "=?"}
        if op in m:
            return "(%s %s %s)" % (zexpr(a), m[op], zexpr(b))
        if op == "!=":
            return "(negb (%s =? %s))" % (zexpr(a), zexpr(b))
        raise Unsupported("operator " + op)
    if k == "UnaryOperator" and n.get("opcode") == "!":
        inner = strip(n["inner"][0])
        if inner.get("kind") == "DeclRefExpr" and inner["referencedDecl"]["name"] == "vector":
            return "vector_null"
        return "(negb %s)" % bexpr(inner)
    # an integer used as a truth value
    return "(negb (%s =? 0))" % zexpr(n)


def ret_code(block):
    """{ messages...; return <int>; } -> int"""
    body = block["inner"] if block.get("kind") == "CompoundStmt" else [block]
    if not body or body[-1].get("kind") != "ReturnStmt":
        return None
    for s in body[:-1]:
        if callee(s) not in MSG:
            raise Unsupported("statement other than a message before a return")
    r = strip(body[-1]["inner"][0])
    if r.get("kind") == "IntegerLiteral":
        return int(r["value"])
    if r.get("kind") == "UnaryOperator" and r.get("opcode") == "-":
        return -int(strip(r["inner"][0])["value"])
    raise Unsupported("return value")


def mentions(n, names, out=None):
    out = set() if out is None else out
    if n.get("kind") == "DeclRefExpr" and n["referencedDecl"]["name"] in names:
        out.add(n["referencedDecl"]["name"])
    if n.get("kind") == "MemberExpr" and n.get("name") in names:
        out.add(n["name"])
    for c in n.get("inner", []):
        mentions(c, names, out)
    return out


def translate(repo="/repo"):
    fn = clang_ast(os.path.join(repo, "c/lib/rf_write_hdf5.c"), "digital_rf_write_blocks_hdf5", repo)
    body = [c for c in fn["inner"] if c.get("kind") == "CompoundStmt"][0]["inner"]
    rejections = []
    loop = final = None
    for s in body:
        k = s.get("kind")
        if k == "DeclStmt":
            continue
        if k == "IfStmt":
            code = ret_code(s["inner"][1])
            if code is not None and len(s["inner"]) == 2:
                if loop is not None:
                    raise Unsupported("rejection after the loop")
                rejections.append((bexpr(s["inner"][0]), code))
                continue
            # the chunk tuning block: may only touch chunk variables / H5Pset_chunk
            bad = mentions(s, {"has_failure", "global_index", "samples_written", "dataset_samples_written"})
            if bad or ret_code(s["inner"][1]) is not None:
                raise Unsupported("conditional that is neither a rejection nor chunk tuning")
            continue
        if k == "WhileStmt":
            if loop is not None:
                raise Unsupported("two loops")
            cond = bexpr(s["inner"][0])
            lb = s["inner"][1]["inner"]
            if len(lb) != 3:
                raise Unsupported("loop body: expected exactly the call, the failure test and the accumulation")
            a0 = lb[0]
            if not (a0.get("kind") == "BinaryOperator" and a0.get("opcode") == "=" and
                    strip(a0["inner"][0]).get("referencedDecl", {}).get("name") == "dataset_samples_written"
                    and callee(a0["inner"][1]) == "digital_rf_write_samples_to_file"):
                raise Unsupported("loop body: first statement")
            a1 = lb[1]
            if not (a1.get("kind") == "IfStmt" and len(a1["inner"]) == 2):
                raise Unsupported("loop body: failure test")
            ftest, fcode = bexpr(a1["inner"][0]), ret_code(a1["inner"][1])
            if fcode is None:
                raise Unsupported("loop body: the failure test must return")
            a2 = lb[2]
            if not (a2.get("kind") == "CompoundAssignOperator" and a2.get("opcode") == "+=" and
                    strip(a2["inner"][0]).get("referencedDecl", {}).get("name") == "samples_written"
                    and strip(a2["inner"][1]).get("referencedDecl", {}).get("name") == "dataset_samples_written"):
                raise Unsupported("loop body: accumulation")
            loop = (cond, ftest, fcode)
            continue
        if k == "ReturnStmt":
            final = ret_code(s)
            continue
        raise Unsupported("statement " + str(k))
    if loop is None or final is None:
        raise Unsupported("loop / final return not found")
    rej = ";\n   ".join("(%s, (%d))" % (t, c) for t, c in rejections)
    return "\n".join([
        "(* GENERATED by translate/wblocks2gallina.py from digital_rf_write_blocks_hdf5 (c/lib/rf_write_hdf5.c) -- do not edit. *)",
        "From Coq Require Import ZArith List Bool.",
        "Import ListNotations.",
        "Local Open Scope Z_scope.", "",
        "(* the rejections in order: (test, return value); has_failure / is_continuous are the C ints *)",
        "Definition gen_rejections (has_failure : Z) (vector_null : bool) (g0 global_index is_continuous index_len : Z) : list (bool * Z) :=",
        "  [" + rej + "].",
        "(* while (<cond>) { n = write_samples_to_file(..); if (<failure test on n>) return <code>; samples_written += n; } return <final> *)",
        "Definition gen_loop_cond (samples_written vector_length : Z) : bool := %s." % loop[0],
        "Definition gen_loop_failure (dataset_samples_written : Z) : bool := %s." % loop[1],
        "Definition gen_loop_failure_code : Z := %d." % loop[2],
        "Definition gen_final_code : Z := %d." % final, ""])


if __name__ == "__main__":
    sys.stdout.write(translate(sys.argv[1] if len(sys.argv) > 1 else "/repo"))
