"""T21: how a DigitalRFWriter is let go -- __enter__, __exit__, close -> Gallina (coq/Gen/CtxMgrGen.v).

  close():    `if hasattr(self, "_channelObj"):` followed by assignments `self._last_X = self.get_last_X()` (the values that
              stay available after close) and `del self._channelObj` (the C object is freed, its close runs) -> the list of
              actions of an open writer, in order; a closed writer does nothing.  Return statements must return a constant.
  __enter__:  must be `return self`.
  __exit__:   statements `self.close()`, `return <constant>`, `return self.close()` (the value close returns), and
              `if exc_type is None / is not None:` around them -> (actions, value returned) as a function of (open, an
              exception is leaving the block).  A truthy value returned by __exit__ makes Python SWALLOW the exception.
Anything else makes the translator fail.
"""
import ast
import os
import sys

sys.path.insert(0, os.path.dirname(os.path.abspath(__file__)))
from c2gallina import Unsupported  # noqa: E402
from mdplace2gallina import find_fn  # noqa: E402

CACHE = {"_last_file_written": ("get_last_file_written", "CacheFile"), "_last_dir_written": ("get_last_dir_written", "CacheDir"),
         "_last_utc_timestamp": ("get_last_utc_timestamp", "CacheTimestamp")}


def self_attr(n, a=None):
    return isinstance(n, ast.Attribute) and isinstance(n.value, ast.Name) and n.value.id == "self" and (a is None or n.attr == a)


def strip_doc(body):
    return [s for s in body if not (isinstance(s, ast.Expr) and isinstance(s.value, ast.Constant) and isinstance(s.value.value, str))]


def const_truth(n):
    if n is None:
        return "false"
    if isinstance(n, ast.Constant):
        return "true" if n.value else "false"
    raise Unsupported("a return value that is not a constant: " + ast.dump(n)[:80])


def close_actions(stmts):
    out = []
    for s in stmts:
        if isinstance(s, ast.Assign) and len(s.targets) == 1 and self_attr(s.targets[0]) and s.targets[0].attr in CACHE:
            getter, act = CACHE[s.targets[0].attr]
            v = s.value
            if not (isinstance(v, ast.Call) and self_attr(v.func, getter) and not v.args and not v.keywords):
                raise Unsupported("%s must be assigned self.%s()" % (s.targets[0].attr, getter))
            out.append(act)
            continue
        if isinstance(s, ast.Delete) and len(s.targets) == 1 and self_attr(s.targets[0], "_channelObj"):
            out.append("Free")
            continue
        raise Unsupported("statement of close(): " + ast.dump(s)[:140])
    return out


def translate_close(fn):
    body = strip_doc(fn.body)
    ret_open, ret_closed = "false", "false"
    if not body or not isinstance(body[0], ast.If):
        raise Unsupported("close() must start with the test whether the writer is still open")
    t = body[0].test
    if not (isinstance(t, ast.Call) and isinstance(t.func, ast.Name) and t.func.id == "hasattr" and len(t.args) == 2 and
            isinstance(t.args[0], ast.Name) and t.args[0].id == "self" and isinstance(t.args[1], ast.Constant) and t.args[1].value == "_channelObj"):
        raise Unsupported("close(): the test must be hasattr(self, '_channelObj')")
    inner = list(body[0].body)
    open_returned = bool(inner) and isinstance(inner[-1], ast.Return)
    if open_returned:
        ret_open = const_truth(inner[-1].value)
        inner = inner[:-1]
    acts = close_actions(inner)
    for s in body[0].orelse:                     # the writer is closed already
        if not isinstance(s, ast.Return):
            raise Unsupported("close() on a closed writer must do nothing: " + ast.dump(s)[:120])
        ret_closed = const_truth(s.value)
    for s in body[1:]:                           # reached by both paths (unless the open path returned)
        if not isinstance(s, ast.Return):
            raise Unsupported("statement of close() after the open test: " + ast.dump(s)[:120])
        v = const_truth(s.value)
        if not body[0].orelse or not isinstance(body[0].orelse[-1], ast.Return):
            ret_closed = v
        if not open_returned:
            ret_open = v
    return acts, ret_open, ret_closed


def exit_block(stmts, exc):
    """-> (list of terms of type list cact, returned-value term or None if the block falls through)"""
    acts = []
    for s in stmts:
        if isinstance(s, ast.Expr) and isinstance(s.value, ast.Call) and self_attr(s.value.func, "close") and not s.value.args:
            acts.append("gen_close_actions open")
            continue
        if isinstance(s, ast.Return):
            v = s.value
            if isinstance(v, ast.Call) and self_attr(v.func, "close") and not v.args:
                acts.append("gen_close_actions open")
                return acts, "(gen_close_returns open)"
            return acts, const_truth(v)
        if isinstance(s, ast.If) and isinstance(s.test, ast.Compare) and isinstance(s.test.left, ast.Name) and \
                s.test.left.id in ("exc_type", "exc_value") and len(s.test.ops) == 1 and isinstance(s.test.ops[0], (ast.Is, ast.IsNot)) and \
                isinstance(s.test.comparators[0], ast.Constant) and s.test.comparators[0].value is None:
            no_exc_branch = s.body if isinstance(s.test.ops[0], ast.Is) else s.orelse
            exc_branch = s.orelse if isinstance(s.test.ops[0], ast.Is) else s.body
            a, r = exit_block(exc_branch if exc else no_exc_branch, exc)
            acts += a
            if r is not None:
                return acts, r
            continue
        raise Unsupported("statement of __exit__: " + ast.dump(s)[:140])
    return acts, None


def translate(repo="/repo"):
    tree = ast.parse(open(os.path.join(repo, "python/digital_rf/digital_rf_hdf5.py")).read())
    acts, ret_open, ret_closed = translate_close(find_fn(tree, "DigitalRFWriter", "close"))
    en = strip_doc(find_fn(tree, "DigitalRFWriter", "__enter__").body)
    if not (len(en) == 1 and isinstance(en[0], ast.Return) and isinstance(en[0].value, ast.Name) and en[0].value.id == "self"):
        raise Unsupported("__enter__ must return self")
    ex = find_fn(tree, "DigitalRFWriter", "__exit__")
    if [a.arg for a in ex.args.args][:1] != ["self"] or len(ex.args.args) != 4:
        raise Unsupported("signature of __exit__")
    names = [a.arg for a in ex.args.args]
    if names[1:] != ["exc_type", "exc_value", "traceback"]:
        raise Unsupported("__exit__ arguments must be (exc_type, exc_value, traceback)")
    terms = {}
    for exc in (False, True):
        a, r = exit_block(strip_doc(ex.body), exc)
        terms[exc] = ("(" + " ++ ".join(a) + ")" if a else "[]", r if r is not None else "false")
    out = ["(* GENERATED by translate/ctxmgr2gallina.py from python/digital_rf/digital_rf_hdf5.py (DigitalRFWriter) -- do not edit. *)",
           "From Coq Require Import List Bool.", "Import ListNotations.", "",
           "(* what close() does to an open writer, in order: the values kept for the getters after close, then the C object is freed *)",
           "Inductive cact := CacheFile | CacheDir | CacheTimestamp | Free.", "",
           "Definition gen_close_actions (open : bool) : list cact :=",
           "  if open then [%s] else []." % "; ".join(acts),
           "(* is the value close() returns truthy? *)",
           "Definition gen_close_returns (open : bool) : bool := if open then %s else %s." % (ret_open, ret_closed), "",
           "(* __exit__(exc_type, exc_value, traceback): (actions, is the returned value truthy = is the exception swallowed) *)",
           "Definition gen_exit (open exc : bool) : list cact * bool :=",
           "  if exc then (%s, %s) else (%s, %s)." % (terms[True][0], terms[True][1], terms[False][0], terms[False][1]), "",
           "Definition gen_enter_returns_self : bool := true.", ""]
    return "\n".join(out)


if __name__ == "__main__":
    sys.stdout.write(translate(sys.argv[1] if len(sys.argv) > 1 else "/repo"))
