"""T6: the integer logic of the Python writer front end -> Gallina (coq/Gen/PyFront.v).

From python/digital_rf/digital_rf_hdf5.py (Python's own `ast`):
  DigitalRFWriter.rf_write          the resolution of next_sample and its "not in the past" test
  DigitalRFWriter.rf_write_blocks   the chain of `if <test>: raise ValueError` validations (in order)
  both                              the counter updates after the extension call

Everything else in those functions (array casting, the extension call, the AttributeError -> IOError
mapping, error strings) is recognised and skipped; any other statement makes the translator fail
(fail-closed).  Expressions are translated structurally:
  X[0] -> hd 0 X,  X[-1] -> last X 0,  len(X) -> length X,  arr.shape[0] -> vlen,
  np.diff(X).view(dtype=np.int64) -> diffs X   (signed differences: exact below 2^63),
  np.any(A < c) -> existsb (fun x => x <? c) A,  np.any(A > B) -> any2 Z.gtb A B,
  self._next_avail_sample / _total_samples_written / _total_gap_samples -> next / written / gap.
"""
import ast
import os
import sys

sys.path.insert(0, os.path.dirname(os.path.abspath(__file__)))
from c2gallina import Unsupported  # noqa: E402

ARR = {"global_sample_arr": "G", "block_sample_arr": "D"}
SELF = {"_next_avail_sample": "next", "_total_samples_written": "written", "_total_gap_samples": "gap"}
CMP = {ast.Lt: "<?", ast.LtE: "<=?", ast.Gt: ">?", ast.GtE: ">=?"}


class Tr:
    def __init__(self):
        self.lists = dict(ARR)       # python name -> Gallina list term
        self.ints = {}               # python local -> Gallina Z term

    def is_list(self, n):
        return isinstance(n, ast.Name) and n.id in self.lists

    def zexpr(self, n):
        if isinstance(n, ast.Constant) and isinstance(n.value, int) and not isinstance(n.value, bool):
            return "(%d)" % n.value
        if isinstance(n, ast.Name):
            if n.id in self.ints:
                return self.ints[n.id]
            raise Unsupported("integer variable " + n.id)
        if isinstance(n, ast.Attribute) and isinstance(n.value, ast.Name) and n.value.id == "self" and n.attr in SELF:
            return SELF[n.attr]
        if isinstance(n, ast.Subscript):
            # arr.shape[0]
            if (isinstance(n.value, ast.Attribute) and n.value.attr == "shape" and isinstance(n.value.value, ast.Name)
                    and n.value.value.id == "arr" and isinstance(n.slice, ast.Constant) and n.slice.value == 0):
                return "vlen"
            if self.is_list(n.value) and isinstance(n.slice, ast.Constant) and n.slice.value == 0:
                return "(hd 0 %s)" % self.lists[n.value.id]
            if (self.is_list(n.value) and isinstance(n.slice, ast.UnaryOp) and isinstance(n.slice.op, ast.USub)
                    and isinstance(n.slice.operand, ast.Constant) and n.slice.operand.value == 1):
                return "(last %s 0)" % self.lists[n.value.id]
            raise Unsupported("subscript")
        if isinstance(n, ast.BinOp) and isinstance(n.op, (ast.Add, ast.Sub)):
            return "(%s %s %s)" % (self.zexpr(n.left), "+" if isinstance(n.op, ast.Add) else "-", self.zexpr(n.right))
        if isinstance(n, ast.Call) and isinstance(n.func, ast.Name) and n.func.id == "int" and len(n.args) == 1:
            return self.zexpr(n.args[0])
        raise Unsupported("integer expression " + ast.dump(n)[:80])

    def lexpr(self, n):
        """list-valued expression"""
        if self.is_list(n):
            return self.lists[n.id]
        # np.diff(X).view(dtype=np.int64)
        if (isinstance(n, ast.Call) and isinstance(n.func, ast.Attribute) and n.func.attr == "view"
                and isinstance(n.func.value, ast.Call) and isinstance(n.func.value.func, ast.Attribute)
                and n.func.value.func.attr == "diff" and len(n.func.value.args) == 1):
            return "(diffs %s)" % self.lexpr(n.func.value.args[0])
        raise Unsupported("list expression " + ast.dump(n)[:80])

    def bexpr(self, n):
        if isinstance(n, ast.Compare) and len(n.ops) == 1:
            op, a, b = n.ops[0], n.left, n.comparators[0]
            # len(X) != len(Y)
            if (isinstance(a, ast.Call) and isinstance(a.func, ast.Name) and a.func.id == "len"
                    and isinstance(b, ast.Call) and isinstance(b.func, ast.Name) and b.func.id == "len"):
                e = "(Nat.eqb (length %s) (length %s))" % (self.lexpr(a.args[0]), self.lexpr(b.args[0]))
                if isinstance(op, ast.NotEq):
                    return "(negb %s)" % e
                if isinstance(op, ast.Eq):
                    return e
                raise Unsupported("comparison of lengths")
            if isinstance(op, ast.NotEq):
                return "(negb (%s =? %s))" % (self.zexpr(a), self.zexpr(b))
            if isinstance(op, ast.Eq):
                return "(%s =? %s)" % (self.zexpr(a), self.zexpr(b))
            if type(op) in CMP:
                return "(%s %s %s)" % (self.zexpr(a), CMP[type(op)], self.zexpr(b))
            raise Unsupported("comparison operator")
        # np.any(A <op> c)  /  np.any(A <op> B)
        if (isinstance(n, ast.Call) and isinstance(n.func, ast.Attribute) and n.func.attr == "any" and len(n.args) == 1
                and isinstance(n.args[0], ast.Compare) and len(n.args[0].ops) == 1):
            c = n.args[0]
            op = c.ops[0]
            if type(op) not in CMP:
                raise Unsupported("np.any comparison operator")
            left = self.lexpr(c.left)
            r = c.comparators[0]
            if isinstance(r, ast.Constant):
                return "(existsb (fun x => x %s %s) %s)" % (CMP[type(op)], self.zexpr(r), left)
            zop = {"<?": "Z.ltb", "<=?": "Z.leb", ">?": "Z.gtb", ">=?": "Z.geb"}[CMP[type(op)]]
            return "(any2 %s %s %s)" % (zop, left, self.lexpr(r))
        if isinstance(n, ast.Compare) and len(n.ops) == 1 and isinstance(n.ops[0], ast.Is) and \
                isinstance(n.comparators[0], ast.Constant) and n.comparators[0].value is None:
            raise Unsupported("is None outside the next_sample resolution")
        raise Unsupported("boolean expression " + ast.dump(n)[:80])


def is_raise(body, exc):
    """body = [errstr assignment(s)..., raise <exc>(...)]"""
    if not body or not isinstance(body[-1], ast.Raise):
        return False
    for st in body[:-1]:
        if not (isinstance(st, ast.Assign) and isinstance(st.targets[0], ast.Name) and st.targets[0].id == "errstr"):
            return False
    e = body[-1].exc
    return isinstance(e, ast.Call) and isinstance(e.func, ast.Name) and e.func.id == exc


def is_cast(st):
    """x = self._cast_input_array(x) / self._cast_sample_array(x)"""
    return (isinstance(st, ast.Assign) and isinstance(st.value, ast.Call) and isinstance(st.value.func, ast.Attribute)
            and st.value.func.attr in ("_cast_input_array", "_cast_sample_array") and isinstance(st.targets[0], ast.Name)
            and isinstance(st.value.args[0], ast.Name) and st.value.args[0].id == st.targets[0].id)


def ext_call(st, fname):
    """try: next_avail_sample = _py_rf_write_hdf5.<fname>(...)  except AttributeError: raise IOError(...)"""
    if not (isinstance(st, ast.Try) and len(st.body) == 1 and isinstance(st.body[0], ast.Assign)):
        return None
    a = st.body[0]
    if not (isinstance(a.value, ast.Call) and isinstance(a.value.func, ast.Attribute) and a.value.func.attr == fname
            and isinstance(a.targets[0], ast.Name)):
        return None
    if not (len(st.handlers) == 1 and isinstance(st.handlers[0].type, ast.Name) and st.handlers[0].type.id == "AttributeError"
            and is_raise(st.handlers[0].body, "IOError")) or st.orelse or st.finalbody:
        raise Unsupported("unexpected exception handling around the extension call")
    return a.targets[0].id, [ast.unparse(x) for x in a.value.args]


def counters(tr, stmts, retvar):
    """the statements after the extension call -> (next', written', gap', returned)"""
    tr.ints[retvar] = "ret"
    st = {"next": "next", "written": "written", "gap": "gap"}
    returned = None
    for s in stmts:
        if isinstance(s, ast.Assign) and isinstance(s.targets[0], ast.Name):
            tr.ints[s.targets[0].id] = sub(tr.zexpr(s.value), st)
        elif isinstance(s, ast.Assign) and isinstance(s.targets[0], ast.Attribute) and s.targets[0].attr in SELF:
            st[SELF[s.targets[0].attr].lstrip("\x00")] = sub(tr.zexpr(s.value), st)
        elif isinstance(s, ast.AugAssign) and isinstance(s.target, ast.Attribute) and s.target.attr in SELF and isinstance(s.op, (ast.Add, ast.Sub)):
            k = SELF[s.target.attr].lstrip("\x00")
            st[k] = "(%s %s %s)" % (st[k], "+" if isinstance(s.op, ast.Add) else "-", sub(tr.zexpr(s.value), st))
        elif isinstance(s, ast.Return):
            returned = sub(tr.zexpr(s.value), st)
        else:
            raise Unsupported("statement after the extension call: " + ast.dump(s)[:80])
    if returned is None:
        raise Unsupported("no return after the extension call")
    return st, returned


def sub(term, st):
    """field reads see the current symbolic value of the field"""
    out = term
    for k in ("next", "written", "gap"):
        out = out.replace("\x00" + k, st[k])
    return out


def translate(repo="/repo"):
    # field reads are marked so that later assignments substitute correctly
    global SELF
    marked = {k: "\x00" + v for k, v in SELF.items()}
    src = open(os.path.join(repo, "python/digital_rf/digital_rf_hdf5.py")).read()
    tree = ast.parse(src)
    cls = [n for n in tree.body if isinstance(n, ast.ClassDef) and n.name == "DigitalRFWriter"]
    if len(cls) != 1:
        raise Unsupported("class DigitalRFWriter not found")
    fns = {n.name: n for n in cls[0].body if isinstance(n, ast.FunctionDef)}
    out = []
    saved = SELF
    SELF = marked
    try:
        # ---- rf_write
        f = fns["rf_write"]
        if [a.arg for a in f.args.args] != ["self", "arr", "next_sample"]:
            raise Unsupported("rf_write signature")
        body = [s for s in f.body if not (isinstance(s, ast.Expr) and isinstance(s.value, ast.Constant))]
        tr = Tr()
        i = 0
        if not is_cast(body[i]):
            raise Unsupported("rf_write: expected the input-array cast first")
        i += 1
        s = body[i]          # if next_sample is None: next_sample = self._next_avail_sample else: next_sample = int(next_sample)
        if not (isinstance(s, ast.If) and isinstance(s.test, ast.Compare) and isinstance(s.test.ops[0], ast.Is)
                and isinstance(s.test.left, ast.Name) and s.test.left.id == "next_sample"
                and isinstance(s.test.comparators[0], ast.Constant) and s.test.comparators[0].value is None
                and len(s.body) == 1 and len(s.orelse) == 1):
            raise Unsupported("rf_write: resolution of next_sample")
        tr.ints["next_sample"] = "ns"
        none_val = sub(tr.zexpr(s.body[0].value), {"next": "next", "written": "written", "gap": "gap"})
        some_val = sub(tr.zexpr(s.orelse[0].value), {"next": "next", "written": "written", "gap": "gap"})
        i += 1
        s = body[i]
        if not (isinstance(s, ast.If) and not s.orelse and is_raise(s.body, "ValueError")):
            raise Unsupported("rf_write: expected the not-in-the-past test")
        past = sub(tr.bexpr(s.test), {"next": "next", "written": "written", "gap": "gap"})
        i += 1
        ec = ext_call(body[i], "rf_write")
        if ec is None:
            raise Unsupported("rf_write: expected the extension call")
        st, ret = counters(tr, body[i + 1:], ec[0])
        out += ["(* rf_write: next_sample is None -> %s ; otherwise -> %s *)" % (none_val, some_val),
                "Definition gen_resolve (next : Z) (ns : option Z) : Z := match ns with None => %s | Some ns => %s end." % (none_val, some_val),
                "Definition gen_write_in_past (next ns : Z) : bool := %s." % past,
                "Definition gen_write_counters (next written gap ret vlen : Z) : Z * Z * Z * Z := (%s, %s, %s, %s)."
                % (st["next"], st["written"], st["gap"], ret), ""]
        # ---- rf_write_blocks
        f = fns["rf_write_blocks"]
        if [a.arg for a in f.args.args] != ["self", "arr", "global_sample_arr", "block_sample_arr"]:
            raise Unsupported("rf_write_blocks signature")
        body = [s for s in f.body if not (isinstance(s, ast.Expr) and isinstance(s.value, ast.Constant))]
        tr = Tr()
        checks = []
        i = 0
        while i < len(body) and is_cast(body[i]):
            i += 1
        if i != 3:
            raise Unsupported("rf_write_blocks: expected three casts first")
        while i < len(body):
            s = body[i]
            ec = ext_call(s, "rf_block_write")
            if ec is not None:
                break
            if isinstance(s, ast.Assign) and isinstance(s.targets[0], ast.Name):
                tr.lists[s.targets[0].id] = tr.lexpr(s.value)
            elif isinstance(s, ast.If) and not s.orelse and is_raise(s.body, "ValueError"):
                checks.append(sub(tr.bexpr(s.test), {"next": "next", "written": "written", "gap": "gap"}))
            else:
                raise Unsupported("rf_write_blocks: statement before the extension call: " + ast.dump(s)[:80])
            i += 1
        else:
            raise Unsupported("rf_write_blocks: extension call not found")
        if ec[1][1:] != ["arr", "global_sample_arr", "block_sample_arr"]:
            raise Unsupported("rf_write_blocks: arguments of the extension call")
        st, ret = counters(tr, body[i + 1:], ec[0])
        out += ["(* rf_write_blocks: the validations, in order; true = raise ValueError *)",
                "Definition gen_blocks_checks (next vlen : Z) (G D : list Z) : list bool :=\n  [" + ";\n   ".join(checks) + "].",
                "Definition gen_blocks_counters (next written gap ret vlen : Z) : Z * Z * Z * Z := (%s, %s, %s, %s)."
                % (st["next"], st["written"], st["gap"], ret), ""]
    finally:
        SELF = saved
    head = ["(* GENERATED by translate/pyfront2gallina.py from DigitalRFWriter.rf_write / rf_write_blocks",
            "   (python/digital_rf/digital_rf_hdf5.py) -- do not edit. *)",
            "From Coq Require Import ZArith List Bool.",
            "From DRF Require Import Model.PyWriter.",
            "Import ListNotations.",
            "Local Open Scope Z_scope.", ""]
    return "\n".join(head + out)


if __name__ == "__main__":
    sys.stdout.write(translate(sys.argv[1] if len(sys.argv) > 1 else "/repo"))
