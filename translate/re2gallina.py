"""T2 -- path grammars of list_drf.py / watchdog_drf.py to the regex AST of coq/Base/Regex.v.

The pattern strings are taken from the *imported* scratch build of digital_rf (the compiled
pattern objects `_RE_*` that the listing applies with `.match`, and the `RE_*` path patterns that
`DigitalRFEventHandler` hands to watchdog's RegexMatchingEventHandler, read back from a live
handler together with the flags they were compiled with).  Each string is parsed with CPython's
own `re._parser.parse`, and the parse tree is emitted as a Gallina term.  Fail-closed: any opcode,
flag or shape outside the supported subset raises Unsupported, which the checks record as a broken
tie.

Supported: LITERAL, ANY, IN of LITERAL/RANGE (not negated), MAX_REPEAT / MIN_REPEAT with a body
that cannot match the empty string, SUBPATTERN (named or not, no inline flags), BRANCH,
ASSERT_NOT in the forward direction, AT_BEGINNING, AT_END.  Flags: only re.IGNORECASE (and the
implicit re.UNICODE); under IGNORECASE a character class may not contain cased characters."""
import re
import sys

try:
    from re import _parser as sre_parse
    from re import _constants as C
except ImportError:  # Python < 3.11
    import sre_parse
    import sre_constants as C


class Unsupported(Exception):
    pass


def _seq(items):
    if not items:
        return "Eps"
    if len(items) == 1:
        return items[0]
    return "(Seq %s %s)" % (items[0], _seq(items[1:]))


def _alt(items):
    if len(items) == 1:
        return items[0]
    return "(Alt %s %s)" % (items[0], _alt(items[1:]))


def _nonnull(tree):
    """conservative: can this parse (sub)tree match the empty string? mirrors Regex.nonnull"""
    for op, av in tree:
        if op in (C.LITERAL, C.ANY, C.IN):
            return True
        if op is C.SUBPATTERN and _nonnull(av[3]):
            return True
        if op in (C.MAX_REPEAT, C.MIN_REPEAT) and av[0] > 0 and _nonnull(av[2]):
            return True
        if op is C.BRANCH and all(_nonnull(b) for b in av[1]):
            return True
    return False


def _emit(tree, names, ci):
    out = []
    for op, av in tree:
        if op is C.LITERAL:
            out.append("(Chr %d)" % av)
        elif op is C.ANY:
            out.append("Any")
        elif op is C.IN:
            items = []
            for iop, iav in av:
                if iop is C.LITERAL:
                    lo, hi = iav, iav
                elif iop is C.RANGE:
                    lo, hi = iav
                else:
                    raise Unsupported("character class item %s" % (iop,))
                if ci and any(chr(x).lower() != chr(x).upper() for x in range(lo, min(hi, lo + 70000) + 1)):
                    raise Unsupported("cased characters in a class under IGNORECASE")
                items.append("(%d, %d)" % (lo, hi))
            out.append("(Cls [%s])" % "; ".join(items))
        elif op in (C.MAX_REPEAT, C.MIN_REPEAT):
            mn, mx, body = av
            if not _nonnull(body):
                raise Unsupported("repeat body may match the empty string")
            mxs = "None" if mx is C.MAXREPEAT else "(Some %d%%nat)" % mx
            out.append("(Rep %s %d%%nat %s %s)" % ("true" if op is C.MAX_REPEAT else "false", mn, mxs,
                                                    _seq(_emit(body, names, ci))))
        elif op is C.SUBPATTERN:
            grp, add_flags, del_flags, body = av
            if add_flags or del_flags:
                raise Unsupported("inline flags")
            inner = _seq(_emit(body, names, ci))
            if grp is None:
                out.append(inner)
            else:
                if grp not in names:
                    raise Unsupported("unnamed capturing group")
                out.append("(Group g_%s %s)" % (names[grp], inner))
        elif op is C.BRANCH:
            out.append(_alt([_seq(_emit(b, names, ci)) for b in av[1]]))
        elif op is C.ASSERT_NOT:
            direction, body = av
            if direction != 1:
                raise Unsupported("look-behind")
            out.append("(NotAhead %s)" % _seq(_emit(body, names, ci)))
        elif op is C.AT:
            if av is C.AT_BEGINNING:
                out.append("Bol")
            elif av is C.AT_END:
                out.append("Eol")
            else:
                raise Unsupported("anchor %s" % (av,))
        else:
            raise Unsupported("opcode %s" % (op,))
    return out


def translate_pattern(pattern, flags=0):
    """-> (coq term, ci flag, group names)"""
    allowed = re.IGNORECASE | re.UNICODE
    if flags & ~allowed:
        raise Unsupported("flags %r" % (re.RegexFlag(flags),))
    tree = sre_parse.parse(pattern, flags & re.IGNORECASE)
    if tree.state.flags & ~allowed:
        raise Unsupported("inline global flags in %r" % pattern)
    names = {v: k for k, v in tree.state.groupdict.items()}
    for n in names.values():
        if n not in GROUPS:
            raise Unsupported("group name %r is not one the models know (%s)" % (n, ", ".join(GROUPS)))
    ci = bool(flags & re.IGNORECASE)
    return _seq(_emit(tree, names, ci)), ci, sorted(names.values())


# the group names the models read (m.group("secs") ...), numbered in this order
GROUPS = ["chpath", "year", "month", "day", "hour", "minute", "second", "name", "secs", "frac"]

# names of the compiled patterns of list_drf used by the listing (always with .match)
LISTING = ["_RE_SUBDIR", "_RE_DRFFILE", "_RE_DMDFILE", "_RE_FILE", "_RE_DRFPROPFILE", "_RE_DMDPROPFILE",
           "_RE_PROPFILE"]
# path patterns used by the event handler; for each, a flag combination under which it is selected
EVENTS = {
    "RE_DRFDMD": dict(include_drf=True, include_dmd=True, include_drf_properties=False, include_dmd_properties=False),
    "RE_DRF": dict(include_drf=True, include_dmd=False, include_drf_properties=False, include_dmd_properties=False),
    "RE_DMD": dict(include_drf=False, include_dmd=True, include_drf_properties=False, include_dmd_properties=False),
    "RE_DRFDMDPROP": dict(include_drf=False, include_dmd=False, include_drf_properties=True, include_dmd_properties=True),
    "RE_DRFPROP": dict(include_drf=False, include_dmd=False, include_drf_properties=True, include_dmd_properties=False),
    "RE_DMDPROP": dict(include_drf=False, include_dmd=False, include_drf_properties=False, include_dmd_properties=True),
}


def collect(strict=True):
    """-> list of (coq name, python origin, pattern string, flags) from the imported package.
    strict=False (used only by the failing-input search after the translator refused): do not insist
    that the live handler selects list_drf.RE_X for the flag combination that should select it."""
    import os
    from digital_rf import list_drf, watchdog_drf
    if os.sep != "/":
        raise Unsupported("os.sep is not '/'")
    out = []
    for n in LISTING:
        p = getattr(list_drf, n)
        out.append(("l" + n.lower(), "list_drf." + n, p.pattern, p.flags))
    for n, kw in EVENTS.items():
        h = watchdog_drf.DigitalRFEventHandler(**kw)
        if strict and len(h.regexes) != 1:
            raise Unsupported("handler built %d regexes for %r" % (len(h.regexes), kw))
        p = h.regexes[0]
        if p.pattern != getattr(list_drf, n):
            if strict:
                raise Unsupported("handler flag combination %r selects %r, not list_drf.%s" % (kw, p.pattern, n))
            p = re.compile(getattr(list_drf, n), p.flags)
        out.append(("e_" + n.lower(), "DigitalRFEventHandler(%s).regexes[0] == list_drf.%s, flags %s" % (
            ", ".join("%s=%s" % kv for kv in sorted(kw.items())), n, re.RegexFlag(p.flags)), p.pattern, p.flags))
    return out


def generate():
    """-> text of coq/Gen/Grammar.v"""
    items = collect()
    lines = [
        "(* REGENERATED on every run by translate/re2gallina.py from the imported digital_rf package:",
        "   the compiled patterns list_drf._RE_* (applied with .match by the listing) and the path",
        "   patterns DigitalRFEventHandler compiles.  Do not edit. *)",
        "From Coq Require Import ZArith List.",
        "From DRF Require Import Base.Regex.",
        "Import ListNotations.",
        "Local Open Scope Z_scope.",
        "",
    ]
    for i, g in enumerate(GROUPS):
        lines.append("Definition g_%s : Z := %d." % (g, i + 1))
    lines.append("Definition group_order : list Z := [%s].\n" % "; ".join("g_" + g for g in GROUPS))
    cis = {}
    for name, origin, pat, flags in items:
        term, ci, groups = translate_pattern(pat, flags)
        cis.setdefault(name[0], set()).add(ci)
        lines.append("(* %s\n   pattern %s\n   groups %s *)" % (origin, pat.replace("*)", "* )").replace("(*", "( *"),
                                                                ", ".join(groups)))
        lines.append("Definition %s : re :=\n  %s.\n" % (name, term))
    for k, nm in (("l", "listing_ci"), ("e", "events_ci")):
        if len(cis[k]) != 1:
            raise Unsupported("mixed IGNORECASE flags among the %s patterns" % nm)
        lines.append("Definition %s : bool := %s.\n" % (nm, "true" if cis[k].pop() else "false"))
    lines.append("Definition all_regexes : list re :=\n  [%s].\n" % ";\n   ".join(n for n, _, _, _ in items))
    lines.append("Definition sep : Z := 47.\n")
    return "\n".join(lines)


if __name__ == "__main__":
    sys.path.insert(0, "/verif/harness")
    import common
    common.use_impl()
    print(generate())
